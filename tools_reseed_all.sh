#!/bin/bash
# re-evaluates every seeded defect under /verif/seeded against the check(s) that are expected to catch it (its own property's check,
# or the check recorded as catching it); prints one line per seed.  Usage: ./tools_reseed_all.sh [name-prefix]
cd "$(dirname "$0")"
for d in seeded/${1:-}*/; do
  name=$(basename $d)
  [ -f $d/patch.diff ] || continue
  prim=${name:0:3}
  checks=""
  if [ -f $d/check_$prim.txt ] && grep -q '^VIOLATION' $d/check_$prim.txt; then checks=$prim; fi
  if [ -z "$checks" ]; then
    for f in $d/check_*.txt; do [ -f "$f" ] || continue; c=$(basename $f .txt); c=${c#check_}; if grep -q '^VIOLATION' $f; then checks="$checks $c"; fi; done
  fi
  [ -z "$checks" ] && checks=$prim
  echo "== $name -> $checks"
  ./tools_seed.sh /verif/$d $name $checks 2>&1 | grep -E "^demo|^check|PATCH"
done
echo RESEED-DONE
