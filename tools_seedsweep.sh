#!/bin/bash
# runs every quick check under several VERIF_SEED values (the unchanged tree must stay quiet for every seed)
cd "$(dirname "$0")"
for s in "$@"; do
  for p in C01 C02 C03 C04 C05 C06 C07 C08 C09 C10 C11 C12 C13 C14 C15 C16 C17 C18 C19 C20; do
    VERIF_SEED=$s ./check $p --tier quick 2>&1 | grep -E "^\[C|VIOLATION|MACHINERY" | head -4 | sed "s/^/seed=$s /"
  done
done
