#!/bin/bash
# runs every quick check once and prints its summary line
cd "$(dirname "$0")"
for p in C01 C02 C03 C04 C05 C06 C07 C08 C09 C10 C11 C12 C13 C14 C15 C16 C17 C18 C19 C20; do
  ./check $p --tier ${1:-quick} 2>&1 | grep -E "^\[C|VIOLATION|KNOWN|MACHINERY" | head -5
done
