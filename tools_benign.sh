#!/bin/bash
# tools_benign.sh <patch.diff> : applies a behaviour-preserving patch in a scratch worktree and runs every quick check
# against it; any VIOLATION line is a false alarm of the machinery.
P=$1; NAME=$(basename $P .diff); WT=/tmp/benign_$NAME; OUT=/verif/benign/$NAME.result.txt
git -C /repo worktree remove --force $WT 2>/dev/null; git -C /repo worktree add -q $WT HEAD || exit 2
git -C $WT apply $P || { echo "patch does not apply"; exit 2; }
(cd $WT && PYTHONPATH=$WT timeout 1500 /venv/bin/python -m pytest -q -p no:cacheprovider --timeout=900 --deselect tests/clingo_test.py::test_clingo 2>&1 | tail -1) > $OUT
for c in C01 C02 C03 C04 C05 C06 C07 C08 C09 C10 C11 C12 C13 C14 C15 C16 C17 C18 C19 C20; do
  W=/verif/work/benign_${NAME}_$c; rm -rf $W
  (cd /verif && VERIF_REPO=$WT VERIF_WORK=$W ./check $c --tier quick 2>&1 | grep -E "^\[C|^VIOLATION|^MACHINERY|^MODEL-DEV|^KNOWN" | awk '/^MODEL-DEV/{d++; if(d>3) next} /^VIOLATION/{v++; if(v>5) next} {print}') >> $OUT
  rm -rf $W
done
git -C /repo worktree remove --force $WT
echo "$NAME: $(grep -c '^VIOLATION' $OUT) violation lines, $(grep -c '^MODEL-DEV' $OUT) deviation lines, tests: $(head -1 $OUT)"
