"""C15 (fixed by fda77ce): expand_scc under a tight candidate limit left a half-attached diagram.
Run: cd /verif/harness && /venv/bin/python ../findings/C15_scc_attach_limit/reproducer.py   (on the tree before fda77ce)"""
import os, sys
sys.path.insert(0, os.path.join(os.path.dirname(__file__), "..", "..", "harness"))
os.dup2(os.open(os.devnull, os.O_WRONLY), 2)
import rec, gen
tt = gen.gadget_networks()["maa_inner_latch"]
cfg = {"maxm": 100000, "candlim": 1, "rsthr": 1, "simbudget": 1000, "nfvsthr": 2000}
tr = rec.record_trace("t", tt, [{"op": "scc", "maa": True}], cfg=cfg)
e = tr["events"][-1]
print("expand_scc raised:", e["raised"], e["exc"])
for i, n in enumerate(e["post"]["nodes"]):
    print(i + 1, n["space"], "expanded" if n["expanded"] else "stub")
print("edges:", [(x["p"], x["c"]) for x in e["post"]["edges"]], "(before the fix: node 2 expanded, no successors, no incoming edge)")
