from biobalm import SuccessionDiagram
for strat in ("block","scc"):
    sd = SuccessionDiagram.from_rules("I, I\nA, (I & A) | (!I & B)\nB, A\n")
    c = sd.node_attractor_candidates(0, compute=True)
    print(strat, "candidates on the stub root:", c)
    (sd.expand_block() if strat=="block" else sd.expand_scc())
    d = sd.node_data(0)
    print(" after expansion: expanded", d["expanded"], "successors", sd.node_successors(0), "seeds", d["attractor_seeds"], "sets", d["attractor_sets"], "candidates", d["attractor_candidates"])
    print(" node_attractor_candidates(0):", sd.node_attractor_candidates(0))
