#!/usr/bin/env python3
"""writes /verif/seeded/<name>/meta.json from the agent's meta, the confirmation run and the check outputs"""
import glob, json, os, re
for d in sorted(glob.glob('/verif/seeded/*/')):
    name = os.path.basename(d.rstrip('/'))
    am = json.load(open(d + 'agent_meta.json')) if os.path.exists(d + 'agent_meta.json') else {}
    r = json.load(open(d + 'result.json')) if os.path.exists(d + 'result.json') else {}
    if not am and os.path.exists(d + 'NOTES.md'):
        # round-4 agents wrote NOTES.md instead of a meta file
        notes = open(d + 'NOTES.md').read()
        files = sorted(set(re.findall(r'^\+\+\+ b/(\S+)', open(d + 'patch.diff').read(), re.M))) if os.path.exists(d + 'patch.diff') else []
        am = {'summary': 'see NOTES.md (written by the seeding agent)', 'needs': 'see NOTES.md, section "What is needed for it to show"', 'files': files,
              'notes_file': 'NOTES.md', 'notes_chars': len(notes)}
    checks = {}
    for f in sorted(glob.glob(d + 'check_*.txt')):
        cid = os.path.basename(f)[6:-4]
        txt = open(f).read()
        viol = len(re.findall(r'^VIOLATION', txt, re.M))
        summ = [ln for ln in txt.splitlines() if ln.startswith('[' + cid)]
        clause = None
        vf = d + f'verdict_{cid}.json'
        if os.path.exists(vf):
            try:
                v = json.load(open(vf))
                fl = v.get('failing', [])
                if fl:
                    x = fl[0]
                    clause = (x.get('invariant') or x.get('clause')) if isinstance(x, dict) else x[0]
            except Exception:
                pass
        checks[cid] = {'violation_lines': viol, 'caught': viol > 0, 'first_failing_clause': clause, 'summary': summ[-1] if summ else ''}
    meta = {
        'name': name,
        'property': am.get('property', name.split('_')[0][:3]),
        'summary': am.get('summary', ''),
        'needs': am.get('needs', ''),
        'files': am.get('files', []),
        'origin': 'fresh sub-agent that saw only the property text and a scratch worktree' if 'revert' not in name else 'revert of a fix: commit',
        'confirmed_by_me': {
            'scratch_worktree': '/tmp/verify_' + name + ' (removed after the run)',
            'commands': ['cd <wt> && PYTHONPATH=<wt> /venv/bin/python demo.py   (before and after `git apply patch.diff`)',
                         'cd <wt> && PYTHONPATH=<wt> /venv/bin/python -m pytest -q -p no:cacheprovider --timeout=900 --deselect tests/clingo_test.py::test_clingo',
                         'VERIF_REPO=<wt> VERIF_WORK=/verif/work/seed_<name>_<check> ./check <check> --tier quick'],
            'demo_exit_without_patch': r.get('demo_exit_without'),
            'demo_exit_with_patch': r.get('demo_exit_with'),
            'repo_tests_exit_with_patch': r.get('tests_exit_with'),
        },
        'checks': checks,
        'caught_by': sorted(c for c, v in checks.items() if v['caught']),
    }
    json.dump(meta, open(d + 'meta.json', 'w'), indent=1)
    print(name, meta['caught_by'])
