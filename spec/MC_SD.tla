-------------------------------- MODULE MC_SD --------------------------------
(***************************************************************************)
(* Model-checking instance of the succession-diagram machine: Init picks   *)
(* a network from the constant list Nets (all 256 two-variable networks,   *)
(* or a catalogue), Next is either a new public call (any arguments from   *)
(* small grids) or one micro-step of the running driver.  Every invariant  *)
(* is therefore evaluated between any two node expansions of any history.  *)
(***************************************************************************)
EXTENDS SD, Json, IOUtils

CONSTANTS MaxCalls,      \* bound on the number of public calls in a history
          NetMode,       \* "all2" | "file"
          Limits,        \* set of size / level / stack limits (Unl = -1 is always included)
          MaxM,          \* set of max_motifs_per_node values
          Ops,           \* set of op names enabled in Next
          FailAts,       \* set of injected solver-failure positions (0 = none)
          EmitFrom       \* Emit prints the history of idle states with at least this many calls

VARIABLES S, D, fr, calls, hist, plain

AllNets2 == LET TT == [1..4 -> {0, 1}] IN {[n |-> 2, f |-> <<a, b>>] : a \in TT, b \in TT}
FileNets == IF NetMode = "file" THEN ndJsonDeserialize(IF "CATALOGUE" \in DOMAIN IOEnv THEN IOEnv.CATALOGUE ELSE "catalogue.ndjson") ELSE <<>>
Nets == IF NetMode = "all2" THEN AllNets2 ELSE {FileNets[i].net : i \in DOMAIN FileNets}

Lims == Limits \cup {Unl}
Cfg(m, f) == [maxm |-> m, failat |-> f]
VARIABLE cfg

allvars == <<S, D, fr, calls, hist, cfg, plain>>
view == <<S.nt, D, fr, calls, cfg, plain>>

Init == /\ \E nt \in Nets : S = SemOf(nt)
        /\ cfg \in {Cfg(m, f) : m \in MaxM, f \in FailAts}
        /\ D = NewDiagram(S)
        /\ fr = Idle
        /\ calls = 0
        /\ hist = <<>>
        /\ plain = TRUE

\* canonical choices for the nondeterministic inputs
MtsOrder(sp) == KeySort(MinTrapsIn(S, sp))
MinState(A)  == CHOOSE s \in A : \A t \in A : s <= t
ExactCover(n) == LET own == OwnAttr(S, D, n)
                     reps == SortAsc({MinState(A) : A \in own})
                 IN [i \in DOMAIN reps |-> StateSpace(S.nt, reps[i])]
\* an exact cover, and (if possible) the same cover preceded by a state of the node that lies in
\* no own attractor (a spurious candidate; pseudo-minimal nodes with a single attractor excluded
\* because the pipeline returns a single candidate there only when it is the attractor)
SpuriousStates(n) == {s \in StOf(S.nt, D.nodes[n].space) :
                         /\ \A A \in OwnAttr(S, D, n) : s \notin A
                         /\ ~\E a \in AvoidOf(D, n) : In(s, a)}
CandChoices(n) ==
    {ExactCover(n)} \cup
    (IF SpuriousStates(n) # {} /\ Len(ExactCover(n)) >= 1
     THEN {<<StateSpace(S.nt, MinState(SpuriousStates(n)))>> \o ExactCover(n)} ELSE {})

PlainTag(tag) == tag[1] \in {"exp", "bfs", "dfs", "tgt", "aseeds", "cand", "seeds", "sets", "reclaim"}
                 \/ (tag[1] = "min" /\ ~tag[4]) \/ (tag[1] = "block" /\ ~tag[4])
Begin(f, tag) == /\ fr' = f
                 /\ calls' = calls + 1
                 /\ hist' = Append(hist, tag)
                 /\ plain' = (plain /\ PlainTag(tag))
                 /\ UNCHANGED <<S, D, cfg>>
Atomic(D2, r, tag) == /\ D' = D2
                      /\ fr' = [Idle EXCEPT !.op = tag[1], !.ret = r]
                      /\ calls' = calls + 1
                      /\ hist' = Append(hist, tag)
                      /\ plain' = (plain /\ PlainTag(tag))
                      /\ UNCHANGED <<S, cfg>>

NewCall ==
    /\ fr.done /\ calls < MaxCalls
    /\ \/ "exp" \in Ops /\ \E n \in Ids(D) : Begin(ExpBegin(n), <<"exp", n>>)
       \/ "bfs" \in Ops /\ \E n \in Ids(D), l \in Lims, z \in Lims : Begin(BfsBegin(n, l, z), <<"bfs", n, l, z>>)
       \/ "dfs" \in Ops /\ \E n \in Ids(D), l \in Lims, z \in Lims : Begin(DfsBegin(n, l, z), <<"dfs", n, l, z>>)
       \/ "tgt" \in Ops /\ \E t \in Spaces(S.nt) \ {AllFree(S.nt)}, z \in Lims : Begin(TgtBegin(t, z), <<"tgt", t, z>>)
       \/ "min" \in Ops /\ \E n \in Ids(D), z \in Lims, sk \in BOOLEAN :
              Begin(MinBegin(n, z, sk, MtsOrder(D.nodes[n].space)), <<"min", n, z, sk>>)
       \/ "aseeds" \in Ops /\ \E z \in Lims : Begin(ASeedsBegin(z, MtsOrder(D.nodes[1].space)), <<"aseeds", z>>)
       \/ "block" \in Ops /\ calls = 0 /\ \E mz \in BOOLEAN, os \in BOOLEAN, z \in Lims :
              Begin(BlockBegin(mz, z, os, FALSE), <<"block", mz, z, os>>)
       \/ "scc" \in Ops /\ \E mz \in BOOLEAN, ex \in BOOLEAN :
              LET r == SccRun(S, cfg.maxm, D, mz, IF ex THEN OrcExact ELSE OrcSeq(<<>>))
              IN Atomic(r.d, r.ret, <<"scc", mz>>)
       \/ "skipmin" \in Ops /\ \E n \in Ids(D) :
              LET r == SkipToMinimal(S, D, n, MtsOrder(D.nodes[n].space), cfg.failat = 1) IN Atomic(r[1], r[2], <<"skipmin", n>>)
       \/ "skiprem" \in Ops /\ IF cfg.failat = 1 THEN Atomic(D, "error", <<"skiprem">>)
                               ELSE LET r == SkipRemaining(S, D, MtsOrder(D.nodes[1].space)) IN Atomic(r[1], "n", <<"skiprem">>)
       \/ "cand" \in Ops /\ \E n \in Ids(D) : \E C \in CandChoices(n) :
              LET r == CandCall(D, n, Known(C)) IN Atomic(r[1], "ok", <<"cand", n>>)
       \/ "seeds" \in Ops /\ \E n \in Ids(D) : \E C \in CandChoices(n) :
              LET r == SeedsCall(S, D, n, Known(C), [on |-> FALSE, seeds |-> <<>>, sets |-> <<>>]) IN Atomic(r[1], "ok", <<"seeds", n>>)
       \/ "sets" \in Ops /\ \E n \in Ids(D) : \E C \in CandChoices(n) :
              LET r == SetsCall(S, D, n, Known(C)) IN Atomic(r[1], "ok", <<"sets", n>>)
       \/ "reclaim" \in Ops /\ Atomic(Reclaim(D), "ok", <<"reclaim">>)

Micro ==
    /\ ~fr.done
    /\ \E b \in OracleChoices(S, D, fr) :
          LET r == StepFrame(S, cfg, D, fr, b) IN D' = r[1] /\ fr' = r[2]
    /\ UNCHANGED <<S, calls, hist, cfg, plain>>

Next == NewCall \/ Micro
Spec == Init /\ [][Next]_allvars
\* C13 (drivers): every public call that has started eventually returns
FairSpec == Spec /\ WF_allvars(Micro)
CallsTerminate == [](~fr.done => <>fr.done)

(***************************************************************************)
(* Invariants                                                              *)
(***************************************************************************)
OnlyPlain == plain

Inv_WF == RootOK(S, D) /\ EdgesWF(D) /\ EdgesDescend(D) /\ IndexExact(D) /\ NodesArePercolatedTraps(S, D)
Inv_PartialFaithful == PartialFaithfulS(S, D, plain)
Inv_DepthExact == DepthExact(D)
Inv_CacheFresh == CacheFresh(S, D)
\* C14, second sentence, on every step of the machine (action property)
CacheDiscardStep == [][CacheDiscarded(D, D')]_D
\* C04: in histories of plain calls nothing is ever "other"
Inv_PlainOnly == OnlyPlain => \A n \in Ids(D) : D.nodes[n].how # "other" /\ ~D.nodes[n].skipped

Completed(op) == fr.done /\ fr.op = op /\ fr.ret = "true"
\* C02: full BFS / DFS from the root gives the full diagram (when every expansion was plain)
Inv_FullExact == (OnlyPlain /\ (Completed("bfs") \/ Completed("dfs")) /\ fr.start = 1 /\ ~fr.err
                    /\ (fr.op = "bfs" => fr.limlvl = Unl) /\ (fr.op = "dfs" => fr.limstk = Unl))
                 => FullExact(S, D)
\* C03: completed strategies from the root (after any prefix) have exactly the minimal trap spaces
Inv_MinExact == ( \/ ((Completed("bfs") /\ fr.limlvl = Unl) \/ (Completed("dfs") /\ fr.limstk = Unl) \/ Completed("min")) /\ fr.start = 1
                  \/ Completed("aseeds") \/ Completed("block")
                  \/ (fr.done /\ fr.op = "scc" /\ fr.ret = "true" /\ calls = 1)
                  \/ (fr.done /\ fr.op = "skiprem" /\ fr.ret # "error") )
                => MinExact(S, D)
\* C15: True means completed; a size-limited False means an unexpanded node remains
Inv_RetFalse == (fr.done /\ fr.op \in {"bfs", "dfs", "min", "aseeds", "tgt"} /\ fr.ret = "false"
                   /\ (fr.op = "bfs" => fr.limlvl = Unl) /\ (fr.op = "dfs" => fr.limstk = Unl))
                => \E n \in Ids(D) : ~D.nodes[n].expanded
Inv_ASeedsSound == fr.op \in {"aseeds", "block"} => ~fr.unsound
\* C01/C05 at the design level: when all seeds are known on a completely expanded diagram
AllExpanded == \A n \in Ids(D) : D.nodes[n].expanded
Inv_Seeds == (fr.done /\ AllExpanded /\ AllSeedsKnown(D, Ids(D)))
             => /\ AtLeastOnce(S, D, Ids(D))
                /\ ((\A n \in Ids(D) : ~D.nodes[n].skipped) \/ NoMAA(S)) => SeedBijection(S, D, Ids(D))

\* coverage goal for directed schedule generation (C20): one step raises the depth of an expanded
\* node by two or more while one of its children already sat at an intermediate depth, so the
\* propagation to descendants has to pass through a node that is neither at the old nor the new level
DeepRelax ==
    \E c \in DOMAIN D.nodes :
        /\ D.nodes[c].expanded /\ D'.nodes[c].depth >= D.nodes[c].depth + 2
        /\ \E x \in Succs(D, c) : D.nodes[x].depth > D.nodes[c].depth + 1 /\ D.nodes[x].depth <= D'.nodes[c].depth
NoDeepRelax == [][~DeepRelax]_allvars

\* schedule emission: one history per distinct idle abstract state (hist is outside the VIEW)
Emit == (fr.done /\ calls >= EmitFrom) => PrintT(ToJson([net |-> S.nt, maxm |-> cfg.maxm, failat |-> cfg.failat, hist |-> hist]))
Constraint == TRUE
=============================================================================
