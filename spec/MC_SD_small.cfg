\* exhaustive small scope: all 256 two-variable networks, histories of two public calls
SPECIFICATION Spec
CONSTANTS
  MaxCalls = 2
  NetMode = "all2"
  Limits = {0, 2, 3}
  MaxM = {1000}
  FailAts = {0}
  EmitFrom = 99
  Ops = {"exp", "bfs", "dfs", "min", "skipmin", "skiprem", "block", "scc", "seeds"}
VIEW view
INVARIANT Inv_WF
INVARIANT Inv_PartialFaithful
INVARIANT Inv_DepthExact
INVARIANT Inv_CacheFresh
INVARIANT Inv_PlainOnly
INVARIANT Inv_FullExact
INVARIANT Inv_MinExact
INVARIANT Inv_RetFalse
INVARIANT Inv_ASeedsSound
INVARIANT Inv_Seeds
PROPERTY CacheDiscardStep
CHECK_DEADLOCK FALSE
