SPECIFICATION Spec
CONSTANTS
  MaxCalls = 2
  NetMode = "all2"
  Limits = {0, 2, 3}
  MaxM = {1000}
  EmitFrom = 2
  Ops = {"exp", "bfs", "dfs", "min", "skipmin", "skiprem", "seeds"}
VIEW view
INVARIANT Inv_WF
INVARIANT Inv_PartialFaithful
INVARIANT Inv_DepthExact
INVARIANT Inv_CacheFresh
INVARIANT Inv_PlainOnly
INVARIANT Inv_FullExact
INVARIANT Inv_MinExact
INVARIANT Inv_ASeedsSound
INVARIANT Inv_Seeds
INVARIANT Emit
CHECK_DEADLOCK FALSE
