----------------------------- MODULE MC_Control -----------------------------
(***************************************************************************)
(* The control *design* (Control.tla: the operators the library's output   *)
(* is compared with by ControlTrace) is itself sound and complete, for     *)
(* every network of the family and every query.  One initial state per     *)
(* network (semantic tables computed once); Next walks through all         *)
(* queries (target x strategy x bound x forbidden set).                    *)
(*                                                                         *)
(* T_C06   every expected intervention flagged successful really forces    *)
(*         the dynamics (nested trap spaces, LDOI containment, attractors  *)
(*         of the overridden network, final space inside the target).      *)
(* T_Reach control is possible (some succession is returned) exactly when  *)
(*         a minimal trap space lies inside the target.                    *)
(* T_Cover every minimal trap space inside the target lies in the final    *)
(*         space of some returned succession (no way into the target is    *)
(*         missing); each final space is outermost along some path.        *)
(* T_Min   reported override sets are inside the allowed pool, within the  *)
(*         bound, pairwise incomparable as variable sets, and no proper    *)
(*         sub-assignment of a reported override forces the motif.         *)
(* T_Internal  the 'internal' strategy reports a subset of what 'all'      *)
(*         would accept: each internal override is forcing under 'all'     *)
(*         semantics (some 'all' override fixes a subset of its variables).*)
(*                                                                         *)
(* Mutations (cfg `HotFull <- MutFalse`, `DriverContains <- MutFalse`)     *)
(* must make TLC report a counterexample: the theorems are not vacuous.    *)
(***************************************************************************)
EXTENDS Control, Json, IOUtils, TLC

CONSTANT NetMode    \* "all2" | "file"
CONSTANT Bounds     \* set of bounds; -1 (Unbounded) = "size of the motif"
CONSTANT MaxForb    \* forbidden sets: all subsets of 1..MaxForb
Unbounded == -1
MutFalse == FALSE
BoundsFull == {Unbounded, 0, 1, 2}     \* cfg: Bounds <- BoundsFull (the cfg parser rejects negative numbers)
BoundsQuick == {Unbounded, 1}
VARIABLE q
vars == <<S, q>>

AllNets2 == LET TT == [1..4 -> {0, 1}] IN {[n |-> 2, f |-> <<a, b>>] : a \in TT, b \in TT}
FileNets == IF NetMode = "file" THEN ndJsonDeserialize(IF "CATALOGUE" \in DOMAIN IOEnv THEN IOEnv.CATALOGUE ELSE "catalogue.ndjson") ELSE <<>>
Nets == IF NetMode = "all2" THEN AllNets2 ELSE {FileNets[i].net : i \in DOMAIN FileNets}

Queries(n) == [target : {t \in [1..n -> {0, 1, 2}] : \E i \in 1..n : t[i] # 2},
               strategy : {"internal", "all"},
               bound : Bounds,
               forbidden : SUBSET (1..(IF MaxForb < n THEN MaxForb ELSE n))]
NoQuery == [target |-> <<>>, strategy |-> "none", bound |-> 0, forbidden |-> {}]

Init == /\ \E n \in Nets : S = SemOf(n)
        /\ q = NoQuery
Next == /\ q = NoQuery
        /\ \E x \in Queries(S.nt.n) : q' = x
        /\ UNCHANGED S
Spec == Init /\ [][Next]_vars

Active == q.strategy # "none"
Interventions ==
    LET all == {[succ |-> s, ctl |-> ControlsOf(s, AllFree(nt), q.strategy, q.bound, q.forbidden)]
                 : s \in ExpectedSuccessions(q.target)}
    IN {[succ |-> x.succ, ctl |-> x.ctl, ok |-> \A k \in DOMAIN x.ctl : x.ctl[k] # {}] : x \in all}

\* ChainOK of Control.tla over sets of overrides
RECURSIVE ChainSound(_, _, _, _, _)
ChainSound(succ, ctl, prev, assume, k) ==
    IF k > Len(succ) THEN TRUE
    ELSE LET m    == succ[k]
             cur  == Perc(nt, Override(prev, m))
             asm2 == Perc(nt, Override(m, assume))
         IN /\ Consistent(prev, m)
            /\ IsTrap(nt, cur) /\ Sub(cur, prev)
            /\ \A d \in ctl[k] : ForcesDyn(prev, d, m)
            /\ ChainSound(succ, ctl, cur, asm2, k + 1)

T_C06 == Active =>
    \A x \in Interventions : x.ok =>
        LET last == LastSpace(x.succ, S.root, 1) IN
        /\ ChainSound(x.succ, x.ctl, S.root, AllFree(nt), 1)
        /\ Consistent(last, q.target)
        /\ \A t \in S.mint : Sub(t, last) => Sub(t, q.target)

T_Reach == Active =>
    ((ExpectedSuccessions(q.target) # {}) <=> (\E t \in S.mint : Sub(t, q.target)))

Lasts == {LastSpace(s, S.root, 1) : s \in ExpectedSuccessions(q.target)}
T_Cover == Active =>
    /\ \A t \in S.mint : Sub(t, q.target) => \E e \in Lasts : Sub(t, e)
    /\ \A e \in Lasts : e \in S.diag
    \* every final space has all its minimal trap spaces in the target and is outermost along some path:
    \* it is the root or has a parent with a minimal trap space outside the target
    /\ \A e \in Lasts : \A t \in S.mint : Sub(t, e) => Sub(t, q.target)
    /\ \A e \in Lasts : e = S.root \/ \E p \in S.diag : e \in Kids(p) /\ \E t \in S.mint : Sub(t, p) /\ ~Sub(t, q.target)
    /\ Cardinality(ExpectedSuccessions(q.target)) <= ExpectedCount(q.target)

\* per-step minimality / constraints; the assumption accumulated along the succession is recomputed here
RECURSIVE StepsMin(_, _, _, _)
StepsMin(succ, ctl, assume, k) ==
    IF k > Len(succ) THEN TRUE
    ELSE LET m == succ[k]
             inner == [i \in V(nt) |-> IF assume[i] # 2 THEN 2 ELSE m[i]]
             bnd == IF q.bound = Unbounded THEN Cardinality(Fixed(inner)) ELSE q.bound
         IN /\ \A d \in ctl[k] :
                 /\ Fixed(d) \cap q.forbidden = {}
                 /\ Cardinality(Fixed(d)) <= bnd
                 /\ q.strategy = "internal" => \A i \in Fixed(d) : d[i] = m[i]
                 /\ ForcesBy(d, assume, m)
                 /\ \A D \in (SUBSET Fixed(d)) \ {Fixed(d)} : ~ForcesBy(RestrictTo(d, D), assume, m)
            /\ \A d1, d2 \in ctl[k] : Fixed(d1) \subseteq Fixed(d2) => Fixed(d1) = Fixed(d2)
            \* completeness: any allowed forcing assignment within the bound extends a reported one
            /\ \A d \in Spaces(nt) :
                  ( /\ Fixed(d) \cap q.forbidden = {} /\ Cardinality(Fixed(d)) <= bnd
                    /\ (q.strategy = "internal" => \A i \in Fixed(d) : inner[i] # 2 /\ d[i] = inner[i])
                    /\ ForcesBy(d, assume, m) )
                  => \E r \in ctl[k] : Fixed(r) \subseteq Fixed(d)
            /\ StepsMin(succ, ctl, Perc(nt, Override(m, assume)), k + 1)
T_Min == Active => \A x \in Interventions : StepsMin(x.succ, x.ctl, AllFree(nt), 1)

T_Internal == (Active /\ q.strategy = "internal") =>
    \A x \in Interventions :
        LET allctl == ControlsOf(x.succ, AllFree(nt), "all", q.bound, q.forbidden)
        IN \A k \in DOMAIN x.ctl : \A d \in x.ctl[k] :
              \* bound -1 means "size of the motif" for both strategies, so an internal override is within the 'all' bound
              \E a \in allctl[k] : Fixed(a) \subseteq Fixed(d)

=============================================================================
