SPECIFICATION Spec
CONSTANTS
  NetMode = "all2"
INVARIANT T_Perc
INVARIANT T_Attr
INVARIANT T_MinTrap
INVARIANT T_NFVS
INVARIANT T_NFVS0
INVARIANT T_Rev
INVARIANT T_Succ
CHECK_DEADLOCK FALSE
