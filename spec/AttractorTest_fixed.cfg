SPECIFICATION Spec
CONSTANTS
  NetMode = "all2"
  Force = TRUE
INVARIANT TypeOK
INVARIANT Contract
INVARIANT Sound
PROPERTY Termination
CHECK_DEADLOCK FALSE
