SPECIFICATION Spec
CONSTANTS
  NetMode = "all2"
  CandLims = {0, 1, 2, 3, 100}
  Thresholds = {0, 1, 2, 100}
  Budgets = {0, 2}
  Legacy = FALSE
INVARIANT TypeOK
INVARIANT Inv_Covers
INVARIANT Inv_Error
INVARIANT Inv_Mechanism
PROPERTY Termination
CHECK_DEADLOCK FALSE
