------------------------------ MODULE CandTrace ------------------------------
(***************************************************************************)
(* Trace validation of the attractor-candidate pipeline: the events        *)
(* recorded INSIDE compute_attractor_candidates of the real library        *)
(* (harness/rec.py wraps its stage functions from outside) are replayed    *)
(* through the step functions of Cand.tla - the same operators that        *)
(* Candidates.tla model-checks for every heuristic outcome.  What the      *)
(* code decides heuristically is taken from the events and only checked    *)
(* for being one of the outcomes the model allows:                         *)
(*                                                                         *)
(*   begin    node space, options, configuration                           *)
(*   retained NFVS U, avoided motifs av, initial retained set R            *)
(*               U must be a negative feedback vertex set of the node,     *)
(*               R must assign exactly U                                   *)
(*   solve    one call of compute_fixed_point_reduced_STG (r, limit, X)    *)
(*               r and the limit must be those the stage prescribes,       *)
(*               X must be a set of solutions of the prescribed size       *)
(*   gbegin / gend  asp_greedy_retained_set_optimization (flip attempts    *)
(*               are solve events in between; gend logs R and C)           *)
(*   sim      one call of run_simulation_minification (Cin, iterations, X) *)
(*               X must be a possible outcome of a simulation round        *)
(*   end      the returned list / the limit error                          *)
(*                                                                         *)
(* One TLC run validates a whole file of pipeline runs.  A run is accepted *)
(* iff every event is explained; the first unexplained event is reported   *)
(* (<<"VIOL", clause, tid, event, kind>>).  Clause COVERS is the C08       *)
(* verdict on the returned list; all other clauses are mechanism           *)
(* conformance (the model-checking results of Candidates.tla transfer to   *)
(* the code because of them).                                              *)
(***************************************************************************)
EXTENDS Cand, Sequences, SequencesExt, Json, IOUtils, TLC

Traces == ndJsonDeserialize(IOEnv.TRACE_FILE)

VARIABLES tr, S, l, q, p, aux, bad
vars == <<tr, S, l, q, p, aux, bad>>

Vec(x) == x                                   \* spaces arrive as sequences over {0,1,2}
SetOf(seq) == {seq[i] : i \in DOMAIN seq}
Aux0 == [greedy |-> FALSE, hasz |-> FALSE, v |-> 0, Z |-> {}, began |-> FALSE]

\* silent steps of the pipeline (no solver call, no event): regen0 without solver call, end of regeneration, leaving the ASP stage
RECURSIVE Norm(_, _, _, _)
Norm(SS, qq, pp, k) ==
    IF k = 0 THEN pp
    ELSE IF pp.pc = "regen0" /\ ~Regen0Solves(qq, FALSE) THEN Norm(SS, qq, Regen0F(SS, qq, pp, {}, FALSE), k - 1)
    ELSE IF pp.pc = "regen" /\ pp.todo = {} THEN Norm(SS, qq, RegenDoneF(pp), k - 1)
    ELSE IF pp.pc = "postasp" THEN Norm(SS, qq, PostAspF(qq, pp), k - 1)
    ELSE pp

Res(pp, ax, why) == [p |-> pp, aux |-> ax, why |-> why]
OK(pp, ax) == Res(pp, ax, "")

\* which variable differs between two retained sets (0 if not exactly one)
DiffVars(a, b) == {i \in DOMAIN a : a[i] # b[i]}

Step(e) ==
    LET pn == Norm(S, q, p, 4) IN
    CASE e.k = "retained" ->
            LET U  == SetOf(e.U)
                av == SetOf(e.av)
                q2 == [q EXCEPT !.U = U, !.av = av, !.pm = (av = {})]
            IN IF p.pc # "begin" \/ aux.began THEN Res(p, aux, "ORDER")
               ELSE IF ~(U \subseteq FreeV(q.sp)) \/ ~IsNFVS(S.nt, U, q.sp) THEN Res(p, aux, "NFVS")
               ELSE IF \E a \in av : ~Sub(a, q.sp) THEN Res(p, aux, "AVOID")
               ELSE IF BeginEarly(q2) THEN Res(p, aux, "EARLY")       \* the code must have returned before this call
               ELSE IF e.R \notin Assignments(S, U) THEN Res(p, aux, "RETAINED")
               ELSE [p |-> BeginF(S, q2, p, e.R), aux |-> [aux EXCEPT !.began = TRUE], why |-> "", q |-> q2]
      [] e.k = "solve" ->
            LET X == SetOf(e.X) IN
            IF aux.greedy THEN
                \* a flip attempt of the greedy optimisation
                LET d == DiffVars(e.r, p.R) IN
                IF ~GreedyMayTry(q, p) THEN Res(p, aux, "GREEDY-GUARD")
                ELSE IF Cardinality(d) # 1 \/ ~(d \subseteq Fixed(p.R)) \/ (\E i \in d : e.r[i] = 2) THEN Res(p, aux, "GREEDY-FLIP")
                ELSE IF e.L # Cardinality(p.C) THEN Res(p, aux, "LIMIT")
                ELSE IF ~IsSolve(S, q, X, e.r, e.L, FALSE) THEN Res(p, aux, "SOLVE")
                ELSE IF Cardinality(X) < Cardinality(p.C) THEN OK(GreedyFlipF(S, q, p, CHOOSE i \in d : TRUE, X), aux)
                ELSE OK(p, aux)
            ELSE IF pn.pc = "first" THEN
                IF e.r # pn.R THEN Res(p, aux, "RETAINED")
                ELSE IF e.L # FirstLimit(q) THEN Res(p, aux, "LIMIT")
                ELSE IF ~IsSolve(S, q, X, e.r, e.L, FALSE) THEN Res(p, aux, "SOLVE")
                ELSE OK(FirstF(S, q, pn, X), aux)
            ELSE IF pn.pc = "regen0" THEN
                IF e.r # NoR(S) THEN Res(p, aux, "RETAINED")
                ELSE IF e.L # q.candlim THEN Res(p, aux, "LIMIT")
                ELSE IF ~IsSolve(S, q, X, e.r, e.L, FALSE) THEN Res(p, aux, "SOLVE")
                ELSE OK(Regen0F(S, q, pn, X, FALSE), aux)
            ELSE IF pn.pc = "regen" /\ ~aux.hasz THEN
                LET d == DiffVars(e.r, pn.R) IN
                IF Cardinality(d) # 1 \/ ~(d \subseteq pn.todo) \/ (\E i \in d : e.r[i] # 0) THEN Res(p, aux, "REGEN-VAR")
                ELSE IF e.L # q.candlim THEN Res(p, aux, "LIMIT")
                ELSE IF ~IsSolve(S, q, X, e.r, e.L, FALSE) THEN Res(p, aux, "SOLVE")
                ELSE LET v == CHOOSE i \in d : TRUE IN
                     IF ZeroWins(q, pn, X, FALSE) THEN OK(RegenF(S, q, pn, v, X, {}, FALSE), aux)
                     ELSE OK(pn, [aux EXCEPT !.hasz = TRUE, !.v = v, !.Z = X])
            ELSE IF pn.pc = "regen" /\ aux.hasz THEN
                IF e.r # R1(pn, aux.v) THEN Res(p, aux, "REGEN-VAR")
                ELSE IF e.L # Cardinality(aux.Z) THEN Res(p, aux, "LIMIT")
                ELSE IF ~IsSolve(S, q, X, e.r, e.L, FALSE) THEN Res(p, aux, "SOLVE")
                ELSE OK(RegenF(S, q, pn, aux.v, aux.Z, X, FALSE), [aux EXCEPT !.hasz = FALSE, !.v = 0, !.Z = {}])
            ELSE Res(p, aux, "ORDER")
      [] e.k = "gbegin" ->
            IF GreedyPc(pn) /\ ~aux.greedy /\ ~aux.hasz THEN OK(pn, [aux EXCEPT !.greedy = TRUE]) ELSE Res(p, aux, "ORDER")
      [] e.k = "gend" ->
            IF ~aux.greedy THEN Res(p, aux, "ORDER")
            ELSE IF e.R # p.R \/ SetOf(e.C) # p.C THEN Res(p, aux, "GREEDY-RESULT")
            ELSE OK(GreedyStopF(p), [aux EXCEPT !.greedy = FALSE])
      [] e.k = "sim" ->
            LET X == SetOf(e.X) IN
            IF pn.pc # "sim" \/ aux.greedy \/ aux.hasz THEN Res(p, aux, "ORDER")
            ELSE IF SetOf(e.Cin) # pn.C THEN Res(p, aux, "SIM-INPUT")
            ELSE IF e.it # 1024 * pn.iters THEN Res(p, aux, "SIM-ITERATIONS")
            ELSE IF ~IsSimOutcome(S, q, pn, X) THEN Res(p, aux, "SIM-OUTCOME")
            ELSE OK(SimF(q, pn, X), aux)
      [] e.k = "end" ->
            LET early == p.pc = "begin" /\ ~aux.began
                \* returned before make_heuristic_retained_set: a fixed point, or an empty NFVS in a node with children
                \* (the avoided motifs are then those of the children, logged by the recorder from the diagram)
                q2 == IF early THEN [q EXCEPT !.U = SetOf(e.U), !.av = SetOf(e.avhint), !.pm = (SetOf(e.avhint) = {})] ELSE q
                pe == IF early
                      THEN IF BeginEarly(q2) /\ (IsState(q.sp) \/ (e.uknown /\ IsNFVS(S.nt, {}, q.sp)))
                           THEN BeginF(S, q2, p, NoR(S)) ELSE p
                      ELSE pn
                r == IF aux.greedy \/ aux.hasz THEN (IF e.ret = "error" THEN OK(RaiseF(p), aux) ELSE Res(p, aux, "ORDER"))
                     ELSE IF pe.pc # "done" THEN Res(p, aux, "EARLY-RETURN")
                     ELSE IF pe.result # e.ret THEN Res(p, aux, "RESULT")
                     ELSE IF e.ret = "ok" /\ (SetOf(e.C) # pe.C \/ Len(e.C) # Cardinality(pe.C)) THEN Res(p, aux, "RESULT")
                     ELSE OK(pe, aux)
            IN [p |-> r.p, aux |-> r.aux, why |-> r.why, q |-> q2]
      [] OTHER -> Res(p, aux, "ORDER")

QOf(e) == [sp |-> e.sp, av |-> {}, pm |-> TRUE, U |-> {}, greedy |-> e.greedy, sim |-> e.sim,
           candlim |-> e.candlim, rsthr |-> e.rsthr, budget |-> e.budget]

Init == /\ \E i \in DOMAIN Traces : tr = Traces[i]
        /\ S = SemOf(tr.net)
        /\ l = 2
        /\ q = QOf(tr.events[1])
        /\ p = P0(S)
        /\ aux = Aux0
        /\ bad = ""

Next == /\ l <= Len(tr.events) /\ bad = ""
        /\ LET x == Step(tr.events[l]) IN
             /\ bad' = x.why
             /\ p' = x.p
             /\ aux' = x.aux
             /\ q' = IF "q" \in DOMAIN x THEN x.q ELSE q
        /\ l' = l + 1
        /\ UNCHANGED <<tr, S>>
Spec == Init /\ [][Next]_vars

Report(name, ok) == ok \/ (PrintT(<<"VIOL", name, tr.tid, l - 1, tr.events[l - 1].k>>) /\ FALSE)
\* mechanism conformance: every event is one the model allows at that point
Inv_MECH == Report(bad, bad = "")
\* C08 on the returned list (relative to the avoided motifs the pipeline used)
Inv_COVERS == Report("COVERS", (l = Len(tr.events) + 1 /\ bad = "" /\ p.pc = "done" /\ p.result = "ok")
                                   => (CoversOwn(S, q, p.C) /\ \A s \in p.C : In(s, q.sp)))
\* after the ASP stage the list is the complete fixed-point set of a retained set assigning exactly the NFVS
Inv_COMPLETE == Report("COMPLETE", (bad = "" /\ Norm(S, q, p, 4).pc \in {"sim"} /\ p.pc # "sim" /\ ~aux.greedy /\ ~aux.hasz)
                                   => (p.complete /\ Fixed(p.R) = q.U))
Accepted == (l = Len(tr.events) + 1 /\ bad = "") => PrintT(<<"DONE", tr.tid, Len(tr.events)>>)
=============================================================================
