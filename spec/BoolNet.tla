------------------------------ MODULE BoolNet ------------------------------
(***************************************************************************)
(* Independent, executable definitions of the objects biobalm computes:    *)
(* states, subspaces, asynchronous dynamics, trap spaces, percolation      *)
(* (LDOI), maximal / minimal trap spaces, attractors, time reversal,       *)
(* reduced transition graphs, signed influence graph, NFVS.                *)
(*                                                                         *)
(* A network is a record  nt = [n |-> N, f |-> <<tt_1, .., tt_N>>]  where  *)
(* tt_i is a tuple of length 2^N over {0,1}: tt_i[s+1] is the value of the *)
(* update function of variable i in state s, and bit (j-1) of the integer  *)
(* s is the value of variable j.  Free inputs are encoded as identity.     *)
(*                                                                         *)
(* A subspace is a tuple over {0,1,2} of length N; 2 = free.               *)
(* Nothing in this module shares code or ideas with the implementation:    *)
(* no BDDs, no ASP, no Petri nets; everything is set comprehension.        *)
(***************************************************************************)
EXTENDS Naturals, Sequences, FiniteSets, TLC

P2 == <<1, 2, 4, 8, 16, 32, 64, 128, 256, 512, 1024, 2048, 4096, 8192, 16384, 32768, 65536, 131072, 262144, 524288, 1048576, 2097152, 4194304, 8388608, 16777216, 33554432, 67108864, 134217728, 268435456, 536870912, 1073741824>>

Bit(s, i)   == (s \div P2[i]) % 2
Flip(s, i)  == IF Bit(s, i) = 1 THEN s - P2[i] ELSE s + P2[i]

V(nt)       == 1..nt.n
States(nt)  == 0..(P2[nt.n + 1] - 1)
F(nt, i, s) == nt.f[i][s + 1]
Spaces(nt)  == [V(nt) -> {0, 1, 2}]
AllFree(nt) == [i \in V(nt) |-> 2]

In(s, sp)     == \A i \in DOMAIN sp : sp[i] = 2 \/ sp[i] = Bit(s, i)
StOf(nt, sp)  == {s \in States(nt) : In(s, sp)}
Sub(a, b)     == \A i \in DOMAIN b : b[i] = 2 \/ b[i] = a[i]       \* a is a subspace of b
Fixed(sp)     == {i \in DOMAIN sp : sp[i] # 2}
FreeV(sp)     == {i \in DOMAIN sp : sp[i] = 2}
IsState(sp)   == \A i \in DOMAIN sp : sp[i] # 2
Consistent(a, b) == \A i \in DOMAIN a : a[i] = 2 \/ b[i] = 2 \/ a[i] = b[i]
Meet(a, b)    == [i \in DOMAIN a |-> IF a[i] # 2 THEN a[i] ELSE b[i]]   \* only if Consistent
Override(a, b) == [i \in DOMAIN a |-> IF b[i] # 2 THEN b[i] ELSE a[i]]  \* b wins (python a | b)
StateSpace(nt, s) == [i \in V(nt) |-> Bit(s, i)]
StateOf(sp)   == LET RECURSIVE Sum(_)
                     Sum(i) == IF i = 0 THEN 0 ELSE sp[i] * P2[i] + Sum(i - 1)
                 IN Sum(Len(sp))

(***************************************************************************)
(* Dynamics                                                                *)
(***************************************************************************)
Unstable(nt, i, s) == F(nt, i, s) # Bit(s, i)
Post(nt, s)  == {Flip(s, i) : i \in {j \in V(nt) : Unstable(nt, j, s)}}
PostVar(nt, i, X) == {Flip(s, i) : s \in {t \in X : Unstable(nt, i, t)}}
PreVar(nt, i, X)  == {s \in States(nt) : Unstable(nt, i, s) /\ Flip(s, i) \in X}

RECURSIVE Closure(_, _, _)
Closure(nt, frontier, seen) ==
    IF frontier = {} THEN seen
    ELSE LET nxt == (UNION {Post(nt, s) : s \in frontier}) \ seen
         IN Closure(nt, nxt, seen \cup nxt)
ReachSet(nt, s) == Closure(nt, {s}, {s})
ReachTab(nt) == [s \in States(nt) |-> ReachSet(nt, s)]
AttrFrom(nt, reach) == {reach[s] : s \in {t \in States(nt) : \A u \in reach[t] : t \in reach[u]}}
Attr(nt) == AttrFrom(nt, ReachTab(nt))
FixedPoints(nt) == {s \in States(nt) : \A i \in V(nt) : ~Unstable(nt, i, s)}

\* backward reachability of a set
RECURSIVE BClosure(_, _, _)
BClosure(nt, frontier, seen) ==
    IF frontier = {} THEN seen
    ELSE LET nxt == {s \in States(nt) \ seen : Post(nt, s) \cap frontier # {}}
         IN BClosure(nt, nxt, seen \cup nxt)
BackReach(nt, X) == BClosure(nt, X, X)

(***************************************************************************)
(* Trap spaces and percolation                                             *)
(***************************************************************************)
IsTrap(nt, sp) == \A s \in StOf(nt, sp) : \A i \in V(nt) : sp[i] # 2 => F(nt, i, s) = sp[i]
Traps(nt)      == {sp \in Spaces(nt) : IsTrap(nt, sp)}

ConstOn(nt, i, sp) ==   \* 0/1 if f_i is constant on sp, else 2
    LET vals == {F(nt, i, s) : s \in StOf(nt, sp)}
    IN IF vals = {1} THEN 1 ELSE IF vals = {0} THEN 0 ELSE 2
PercStep(nt, sp) == [i \in V(nt) |-> IF sp[i] # 2 THEN sp[i] ELSE ConstOn(nt, i, sp)]
RECURSIVE Perc(_, _)
Perc(nt, sp) == LET nx == PercStep(nt, sp) IN IF nx = sp THEN sp ELSE Perc(nt, nx)

Sources(nt)   == {i \in V(nt) : \A s \in States(nt) : F(nt, i, s) = Bit(s, i)}
Constants(nt) == {i \in V(nt) : \E c \in {0, 1} : \A s \in States(nt) : F(nt, i, s) = c}

Maximal(S) == {t \in S : \A u \in S : Sub(t, u) => u = t}
Minimal(S) == {t \in S : \A u \in S : Sub(u, t) => u = t}
MaxIn(traps, sp, srcs) ==
    Maximal({t \in traps : Sub(t, sp) /\ t # sp /\ \A i \in srcs : t[i] # 2})
MinTrapsOf(traps) == Minimal(traps)

(***************************************************************************)
(* The order of space_unique_key without big integers: free = 0, zero = 2, *)
(* one = 3, most significant digit = highest variable index.               *)
(***************************************************************************)
Code(x) == IF x = 2 THEN 0 ELSE x + 2
RECURSIVE LessFrom(_, _, _)
LessFrom(a, b, i) == IF i = 0 THEN FALSE
                     ELSE IF Code(a[i]) # Code(b[i]) THEN Code(a[i]) < Code(b[i])
                     ELSE LessFrom(a, b, i - 1)
KeyLess(a, b) == LessFrom(a, b, Len(a))
RECURSIVE KeySort(_)
KeySort(S) == IF S = {} THEN <<>>
              ELSE LET m == CHOOSE x \in S : \A y \in S \ {x} : KeyLess(x, y)
                   IN <<m>> \o KeySort(S \ {m})

(***************************************************************************)
(* Time reversal; reduced transition graph                                 *)
(***************************************************************************)
RevF(nt, i, u) == IF F(nt, i, Flip(u, i)) = Bit(u, i) THEN 1 - Bit(u, i) ELSE Bit(u, i)
RevNet(nt) == [n |-> nt.n, f |-> [i \in V(nt) |-> [k \in 1..P2[nt.n + 1] |-> RevF(nt, i, k - 1)]]]

\* states of `ensure`, outside every avoid, with no enabled transition once every transition
\* moving a retained variable away from its retained value has been removed
ReducedFP(nt, R, ensure, avoid) ==
    {s \in StOf(nt, ensure) :
        /\ \A a \in avoid : ~In(s, a)
        /\ \A i \in V(nt) : Unstable(nt, i, s) => (R[i] # 2 /\ Bit(s, i) = R[i])}

(***************************************************************************)
(* Semantic signed influence graph on a space; negative feedback vertex    *)
(* sets.                                                                   *)
(***************************************************************************)
PosInf(nt, j, i, sp) == \E s \in StOf(nt, sp) : Bit(s, j) = 0 /\ F(nt, i, Flip(s, j)) > F(nt, i, s)
NegInf(nt, j, i, sp) == \E s \in StOf(nt, sp) : Bit(s, j) = 0 /\ F(nt, i, Flip(s, j)) < F(nt, i, s)
\* parity-doubled graph over free variables outside U: node <<v, p>>
IsNFVS(nt, U, sp) ==
    LET W == FreeV(sp) \ U
        Nodes == W \X {0, 1}
        Succ(x) == {y \in Nodes :
                      \/ (y[2] = x[2] /\ PosInf(nt, x[1], y[1], sp))
                      \/ (y[2] # x[2] /\ NegInf(nt, x[1], y[1], sp))}
        RECURSIVE Cl(_, _)
        Cl(fr, seen) == IF fr = {} THEN seen
                        ELSE LET nx == (UNION {Succ(x) : x \in fr}) \ seen IN Cl(nx, seen \cup nx)
    IN \A v \in W : <<v, 1>> \notin Cl(Succ(<<v, 0>>), Succ(<<v, 0>>))
IsFVS(nt, U, sp) ==
    LET W == FreeV(sp) \ U
        Succ(x) == {y \in W : PosInf(nt, x, y, sp) \/ NegInf(nt, x, y, sp)}
        RECURSIVE Cl(_, _)
        Cl(fr, seen) == IF fr = {} THEN seen
                        ELSE LET nx == (UNION {Succ(x) : x \in fr}) \ seen IN Cl(nx, seen \cup nx)
    IN \A v \in W : v \notin Cl(Succ(v), Succ(v))
Regulators(nt, i, sp) == {j \in FreeV(sp) : PosInf(nt, j, i, sp) \/ NegInf(nt, j, i, sp)}

(***************************************************************************)
(* The semantic table of one network: everything the succession-diagram    *)
(* machine needs, computed once.  `diag` is the set of spaces of the full  *)
(* succession diagram, `ms[sp]` the key-sorted motifs of a node and        *)
(* `ch[sp]` the percolated child of each motif (same positions).           *)
(***************************************************************************)
RECURSIVE DiagClosure(_, _, _, _, _)
DiagClosure(nt, traps, srcs, root, todo) ==  \* todo: <<frontier, seen>>
    LET fr == todo[1] seen == todo[2] IN
    IF fr = {} THEN seen
    ELSE LET kids == UNION {{Perc(nt, m) : m \in MaxIn(traps, sp, IF sp = root THEN srcs ELSE {})} : sp \in fr}
             nx == kids \ seen
         IN DiagClosure(nt, traps, srcs, root, <<nx, seen \cup nx>>)

\* `srcs0`: the source variables the root expansion fixes all at once.  They are those of the network as given; a
\* network that is the percolated core of a larger one (traces of the repository's test suite on published models)
\* names them explicitly: a core variable whose function only BECOMES the identity after substituting constants is
\* not a source for the library, which reads sources off the unpercolated Petri net.
SemOfSrcs(nt, srcs0) ==
    LET traps == TLCEval(Traps(nt))
        srcs  == TLCEval(srcs0)
        root  == TLCEval(Perc(nt, AllFree(nt)))
        diag  == TLCEval(DiagClosure(nt, traps, srcs, root, <<{root}, {root}>>))
        reach == TLCEval(ReachTab(nt))
        ms    == TLCEval([sp \in diag |-> KeySort(MaxIn(traps, sp, IF sp = root THEN srcs ELSE {}))])
    IN [ nt    |-> nt,
         traps |-> traps,
         srcs  |-> srcs,
         root  |-> root,
         diag  |-> diag,
         ms    |-> ms,
         mint  |-> TLCEval(Minimal(traps)),
         reach |-> reach,
         attr  |-> TLCEval(AttrFrom(nt, reach)) ]
SemOf(nt) == SemOfSrcs(nt, Sources(nt))
=============================================================================
