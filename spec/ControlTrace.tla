----------------------------- MODULE ControlTrace -----------------------------
(***************************************************************************)
(* Succession control (biobalm.control) against first principles.          *)
(*                                                                         *)
(* C07: on a fresh diagram the output of succession_control equals         *)
(*      ExpectedInterventions, built from the full succession diagram of   *)
(*      the network (BoolNet!SemOf), the target-directed expansion rule,   *)
(*      the end-node rule, all root-to-end paths x all motifs per edge,    *)
(*      and per step the inclusion-minimal driver variable sets with every *)
(*      forcing valuation.                                                 *)
(* C06: every intervention reported successful really forces the target:   *)
(*      nested trap spaces, LDOI containment, and in the overridden        *)
(*      network every attractor reachable from the previous trap space     *)
(*      agrees with the motif (attractors recomputed by TLC).              *)
(*                                                                         *)
(* Input: ndjson (env TRACE_FILE), one line per network:                   *)
(*   [tid, net, events]; event = [target, strategy, bound, forbidden,      *)
(*   sonly, skipff, fresh, raised, res], res = seq of [succ, ctl, ok].     *)
(***************************************************************************)
EXTENDS Control, Json, IOUtils, TLCExt

Traces == ndJsonDeserialize(IOEnv.TRACE_FILE)
VARIABLES tr, l, ev, bad
vars == <<tr, S, l, ev, bad>>

Verdict(e) ==
    (IF e.fresh /\ ~e.skipff /\ ~C07OK(e) THEN {"C07"} ELSE {})
    \cup (IF C06OK(e) THEN {} ELSE {"C06"})
    \cup (IF FlagOK(e) THEN {} ELSE {"FLAG"})

Init == /\ \E i \in DOMAIN Traces : tr = Traces[i]
        /\ S = SemOf(tr.net)
        /\ l = 1
        /\ ev = [k |-> "init"]
        /\ bad = {}
Next == /\ l <= Len(tr.events)
        /\ ev' = tr.events[l]
        /\ bad' = (IF tr.events[l].raised THEN {"RAISED"} ELSE Verdict(tr.events[l]))
        /\ l' = l + 1
        /\ UNCHANGED <<tr, S>>
Spec == Init /\ [][Next]_vars

Report(name, ok) == ok \/ (PrintT(<<"VIOL", name, tr.tid, l - 1, "control">>) /\ FALSE)
Inv_C06 == Report("C06", "C06" \notin bad)
Inv_C07 == Report("C07", "C07" \notin bad)
Inv_FLAG == Report("FLAG", "FLAG" \notin bad)
Inv_RAISED == Report("RAISED", "RAISED" \notin bad)
Done == l > Len(tr.events)
Accepted == Done => PrintT(<<"DONE", tr.tid, Len(tr.events)>>)
=============================================================================
