SPECIFICATION Spec
CONSTANTS
  NetMode = "all2"
  Bounds <- BoundsFull
  MaxForb = 1
INVARIANT T_C06
INVARIANT T_Reach
INVARIANT T_Cover
INVARIANT T_Min
INVARIANT T_Internal
CHECK_DEADLOCK FALSE
