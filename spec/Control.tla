------------------------------- MODULE Control -------------------------------
(***************************************************************************)
(* Succession control (biobalm.control) as a function of the semantic      *)
(* tables S of a network (BoolNet!SemOf): target-directed sub-diagram,     *)
(* hot-lava / end-node rule, successions, per-step drivers with the        *)
(* accumulated assumption, and the semantic soundness conditions.          *)
(* Shared by ControlTrace.tla (recorded library output = these operators)  *)
(* and MC_Control.tla (the operators themselves are sound and complete     *)
(* for every network / target / strategy / bound / forbidden set).         *)
(*                                                                         *)
(* HotFull, DriverContains: the two design decisions MC_Control mutates    *)
(* (cfg: `HotFull <- MutFalse`) to show its theorems are not vacuous.      *)
(***************************************************************************)
EXTENDS BoolNet, Integers, SequencesExt, FiniteSetsExt

VARIABLE S
nt == S.nt
SeqToSet(q) == {q[i] : i \in DOMAIN q}
HotFull == TRUE          \* a target-consistent minimal trap space not inside the target is hot lava
DriverContains == TRUE   \* a driver set is accepted iff its LDOI *contains* the motif (FALSE: merely consistent with it)

(***************************************************************************)
(* Target-directed part of the full diagram                                *)
(***************************************************************************)
Expands(sp, T) == Consistent(sp, T) /\ ~(Sub(sp, T) /\ sp # T)
Kids(sp) == {Perc(nt, S.ms[sp][k]) : k \in DOMAIN S.ms[sp]}
RECURSIVE TDClosure(_, _, _)
TDClosure(T, fr, seen) ==
    IF fr = {} THEN seen
    ELSE LET nx == (UNION {Kids(sp) : sp \in {x \in fr : Expands(x, T)}}) \ seen
         IN TDClosure(T, nx, seen \cup nx)
TDNodes(T) == TDClosure(T, {S.root}, {S.root})
TDKids(sp, T) == IF Expands(sp, T) THEN Kids(sp) ELSE {}
Hot(sp, T) == ~Consistent(sp, T) \/ (HotFull /\ ~Sub(sp, T) /\ Expands(sp, T) /\ Kids(sp) = {})
RECURSIVE DescClosure(_, _, _)
DescClosure(T, fr, seen) ==
    IF fr = {} THEN seen
    ELSE LET nx == (UNION {TDKids(sp, T) : sp \in fr}) \ seen IN DescClosure(T, nx, seen \cup nx)
DescSelf(sp, T) == DescClosure(T, {sp}, {sp})
Cold(sp, T) == \A d \in DescSelf(sp, T) : ~Hot(d, T)
Parents(sp, T) == {p \in TDNodes(T) : sp \in TDKids(p, T)}
EndNodes(T) == {sp \in TDNodes(T) : Cold(sp, T) /\ \E p \in Parents(sp, T) : ~Cold(p, T)}

Reduce(m, parent) == [i \in DOMAIN m |-> IF parent[i] # 2 THEN 2 ELSE m[i]]
\* all successions (sequences of reduced motifs) from node sp down to node e
RECURSIVE SuccessionsFrom(_, _, _)
SuccessionsFrom(sp, e, T) ==
    IF sp = e THEN {<<>>}
    ELSE UNION {
           {<<Reduce(S.ms[sp][k], sp)>> \o rest : rest \in SuccessionsFrom(Perc(nt, S.ms[sp][k]), e, T)}
           : k \in {j \in DOMAIN S.ms[sp] : Expands(sp, T)}}
\* number of (path, motif choice) combinations, to detect repeated or missing entries
RECURSIVE CountFrom(_, _, _)
CountFrom(sp, e, T) ==
    IF sp = e THEN 1
    ELSE IF ~Expands(sp, T) THEN 0
    ELSE LET RECURSIVE Sum(_)
             Sum(k) == IF k = 0 THEN 0 ELSE CountFrom(Perc(nt, S.ms[sp][k]), e, T) + Sum(k - 1)
         IN Sum(Len(S.ms[sp]))
ExpectedSuccessions(T) ==
    LET base == UNION {SuccessionsFrom(S.root, e, T) : e \in EndNodes(T)}
    IN IF base = {} /\ (\E sp \in TDNodes(T) : Cold(sp, T)) THEN {<<>>} ELSE base
ExpectedCount(T) ==
    LET RECURSIVE Sum(_)
        Sum(X) == IF X = {} THEN 0 ELSE LET e == CHOOSE x \in X : TRUE IN CountFrom(S.root, e, T) + Sum(X \ {e})
        c == Sum(EndNodes(T))
    IN IF c = 0 /\ (\E sp \in TDNodes(T) : Cold(sp, T)) THEN 1 ELSE c

(***************************************************************************)
(* Drivers                                                                 *)
(***************************************************************************)
RestrictTo(m, D) == [i \in DOMAIN m |-> IF i \in D THEN m[i] ELSE 2]
ContainsSp(big, small) == \A i \in DOMAIN small : small[i] = 2 \/ big[i] = small[i]
ForcesBy(d, assume, ts) == IF DriverContains THEN ContainsSp(Perc(nt, Override(d, assume)), ts)
                           ELSE Consistent(Perc(nt, Override(d, assume)), ts)
Valuations(D) == {d \in Spaces(nt) : \A i \in V(nt) : (d[i] # 2) <=> (i \in D)}
DriversOf(ts, assume, strategy, bound, forbidden) ==
    LET inner == [i \in V(nt) |-> IF assume[i] # 2 THEN 2 ELSE ts[i]]
        pool  == (IF strategy = "internal" THEN Fixed(inner) ELSE V(nt)) \ forbidden
        bnd   == IF bound = -1 THEN Cardinality(Fixed(inner)) ELSE bound
        Works(D) == IF strategy = "internal"
                    THEN (IF ForcesBy(RestrictTo(inner, D), assume, ts) THEN {RestrictTo(inner, D)} ELSE {})
                    ELSE {d \in Valuations(D) : ForcesBy(d, assume, ts)}
        sets  == {D \in SUBSET pool : Cardinality(D) <= bnd /\ Works(D) # {}}
        mins  == {D \in sets : \A E \in sets : E \subseteq D => E = D}
    IN UNION {Works(D) : D \in mins}
RECURSIVE ControlsOf(_, _, _, _, _)
ControlsOf(succ, assume, strategy, bound, forbidden) ==
    IF succ = <<>> THEN <<>>
    ELSE <<DriversOf(Head(succ), assume, strategy, bound, forbidden)>>
         \o ControlsOf(Tail(succ), Perc(nt, Override(Head(succ), assume)), strategy, bound, forbidden)
ExpectedInterventions(e) ==
    LET all == {[succ |-> s, ctl |-> ControlsOf(s, AllFree(nt), e.strategy, e.bound, SeqToSet(e.forbidden))]
                 : s \in ExpectedSuccessions(e.target)}
        ok(x) == \A k \in DOMAIN x.ctl : x.ctl[k] # {}
    IN {[succ |-> x.succ, ctl |-> x.ctl, ok |-> ok(x)] : x \in {y \in all : ~e.sonly \/ ok(y)}}
Got(e) == {[succ |-> e.res[k].succ, ctl |-> [j \in DOMAIN e.res[k].ctl |-> SeqToSet(e.res[k].ctl[j])], ok |-> e.res[k].ok]
            : k \in DOMAIN e.res}
C07OK(e) ==
    /\ Got(e) = ExpectedInterventions(e)
    /\ (~e.sonly) => Len(e.res) = ExpectedCount(e.target)                       \* each once
    /\ \A k \in DOMAIN e.res : \A j \in DOMAIN e.res[k].ctl :                    \* no repeated override in a step
           Len(e.res[k].ctl[j]) = Cardinality(SeqToSet(e.res[k].ctl[j]))
    /\ \A k \in DOMAIN e.res : \A j \in DOMAIN e.res[k].ctl : \A d \in SeqToSet(e.res[k].ctl[j]) :
           /\ Fixed(d) \cap SeqToSet(e.forbidden) = {}
           /\ e.bound # -1 => Cardinality(Fixed(d)) <= e.bound

(***************************************************************************)
(* C06: a successful intervention really forces the target                 *)
(***************************************************************************)
OverrideNet(d) == [n |-> nt.n, f |-> [i \in V(nt) |-> IF d[i] # 2 THEN [k \in 1..P2[nt.n + 1] |-> d[i]] ELSE nt.f[i]]]
\* in the network overridden by d, every attractor reachable from the states of `from` (with d
\* applied) has the values of motif
ForcesDyn(from, d, motif) ==
    LET on    == OverrideNet(d)
        start == {StateOf(Override(StateSpace(nt, s), d)) : s \in StOf(nt, from)}
        reach == ReachTab(on)
        R     == UNION {reach[s] : s \in start}
        attrs == {A \in AttrFrom(on, reach) : A \subseteq R}
    IN \A A \in attrs : \A s \in A : In(s, motif)
RECURSIVE ChainOK(_, _, _, _, _)
ChainOK(succ, ctl, prev, assume, k) ==     \* prev: cumulative trap space, assume: the library's assume_fixed
    IF k > Len(succ) THEN TRUE
    ELSE LET m    == succ[k]
             cur  == Perc(nt, Override(prev, m))
             asm2 == Perc(nt, Override(m, assume))
         IN /\ Consistent(prev, m)
            /\ IsTrap(nt, cur) /\ Sub(cur, prev)
            /\ \A d \in SeqToSet(ctl[k]) :
                  /\ ContainsSp(Perc(nt, Override(d, assume)), m)
                  /\ ForcesDyn(prev, d, m)
            /\ ChainOK(succ, ctl, cur, asm2, k + 1)
RECURSIVE LastSpace(_, _, _)
LastSpace(succ, prev, k) == IF k > Len(succ) THEN prev ELSE LastSpace(succ, Perc(nt, Override(prev, succ[k])), k + 1)
C06OK(e) ==
    \A k \in DOMAIN e.res : e.res[k].ok =>
        LET x == e.res[k]
            last == LastSpace(x.succ, S.root, 1) IN
        /\ Len(x.ctl) = Len(x.succ)
        /\ ChainOK(x.succ, x.ctl, S.root, AllFree(nt), 1)
        /\ Consistent(last, e.target)
        /\ \A t \in S.mint : Sub(t, last) => Sub(t, e.target)
FlagOK(e) == \A k \in DOMAIN e.res : e.res[k].ok <=> (\A j \in DOMAIN e.res[k].ctl : e.res[k].ctl[j] # <<>>)

=============================================================================
