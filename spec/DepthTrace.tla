----------------------------- MODULE DepthTrace -----------------------------
(***************************************************************************)
(* Action-level conformance of _ensure_edge / _update_node_depth (C20):    *)
(* the harness puts a SuccessionDiagram object into an arbitrary DAG state *)
(* whose depths are exact, calls _ensure_edge(p, c) for a new or existing  *)
(* edge, and logs the depths before and after.  TLC applies SD!EnsureEdge  *)
(* to the same state and compares, and checks DepthExact on the result.    *)
(* This exercises the depth propagation from states that ordinary          *)
(* histories reach only through very specific expansion orders.            *)
(* Input: ndjson (env TRACE_FILE): [tid, n, edges, depth, steps] with      *)
(* steps = seq of [p, c, post] (post = depths after the call).             *)
(***************************************************************************)
EXTENDS SD, Json, IOUtils, TLCExt

Traces == ndJsonDeserialize(IOEnv.TRACE_FILE)
VARIABLES tr, l, D, bad
vars == <<tr, l, D, bad>>

Dummy == <<2>>
MkDiagram(n, edges, depth) ==
    [nodes |-> [i \in 1..n |-> [NewNode(Dummy) EXCEPT !.depth = depth[i], !.expanded = TRUE, !.how = "other"]],
     edges |-> [e \in {<<edges[k][1], edges[k][2]>> : k \in DOMAIN edges} |-> <<Dummy>>],
     idx   |-> <<>>]
Depths(d) == [i \in DOMAIN d.nodes |-> d.nodes[i].depth]

Init == /\ \E i \in DOMAIN Traces : tr = Traces[i]
        /\ l = 1
        /\ D = MkDiagram(tr.n, tr.edges, tr.depth)
        /\ bad = {}
Next == /\ l <= Len(tr.steps)
        /\ LET st == tr.steps[l]
               x  == EnsureEdge(D, st.p, st.c, Dummy)
           IN /\ D' = [x EXCEPT !.nodes = [i \in DOMAIN x.nodes |-> [x.nodes[i] EXCEPT !.depth = st.post[i]]]]   \* continue from the logged depths
              /\ bad' = (IF Depths(x) = st.post THEN {} ELSE {"DEPTHSTEP"})
        /\ l' = l + 1
        /\ UNCHANGED tr
Spec == Init /\ [][Next]_vars

Report(name, ok) == ok \/ (PrintT(<<"VIOL", name, tr.tid, l - 1, "ensure_edge">>) /\ FALSE)
Inv_DEPTHSTEP == Report("DEPTHSTEP", "DEPTHSTEP" \notin bad)
Inv_DepthExactD == Report("DepthExactD", DepthExact(D))
Done == l > Len(tr.steps)
Accepted == Done => PrintT(<<"DONE", tr.tid, Len(tr.steps)>>)
=============================================================================
