-------------------------------- MODULE Cand --------------------------------
(***************************************************************************)
(* compute_attractor_candidates (attractor_candidates.py) as step          *)
(* functions: one operator per stage of the pipeline, parameterised by     *)
(* everything the code decides heuristically (the retained values, WHICH   *)
(* solutions a limited solver call returned, the flipped variable, the     *)
(* outcome of a simulation round).  Two users share these operators:       *)
(*                                                                         *)
(*   Candidates.tla  quantifies over all choices (model checking: "every   *)
(*                   heuristic outcome still covers the attractors"),      *)
(*   CandTrace.tla   takes the choices from the events recorded inside the *)
(*                   real pipeline (trace validation: "the code is a       *)
(*                   behaviour of this machine").                          *)
(*                                                                         *)
(* q: the inputs of one pipeline run                                       *)
(*    [sp, av, pm, U, greedy, sim, candlim, rsthr, budget]                 *)
(* p: the pipeline state [R, C, complete, pc, todo, iters, result]         *)
(* Legacy = TRUE is the code as found (DESIGN.md section 6).               *)
(***************************************************************************)
EXTENDS BoolNet, Integers, FiniteSetsExt

NoR(S) == AllFree(S.nt)
Fix(S, q, r) == ReducedFP(S.nt, r, q.sp, q.av)
\* a solver call with solution limit L (-1 = none) returns this many solutions ...
SolveCount(S, q, r, L, legacy) ==
    LET n == Cardinality(Fix(S, q, r)) IN
    IF L = -1 THEN n
    ELSE IF legacy /\ L = 0 THEN (IF n = 0 THEN 0 ELSE 1)
    ELSE IF n < L THEN n ELSE L
\* ... and any subset of the solutions of that size
IsSolve(S, q, X, r, L, legacy) == X \subseteq Fix(S, q, r) /\ Cardinality(X) = SolveCount(S, q, r, L, legacy)
Solve(S, q, r, L, legacy) ==
    IF L = -1 THEN {Fix(S, q, r)}
    ELSE LET k == SolveCount(S, q, r, L, legacy) IN {X \in SUBSET Fix(S, q, r) : Cardinality(X) = k}
Assignments(S, W) == {r \in Spaces(S.nt) : \A i \in V(S.nt) : (r[i] # 2) <=> (i \in W)}
Own(S, q) == {A \in S.attr : (\A s \in A : In(s, q.sp)) /\ ~\E a \in q.av : \A s \in A : In(s, a)}
CoversOwn(S, q, X) == \A A \in Own(S, q) : A \cap X # {}

P0(S) == [R |-> NoR(S), C |-> {}, complete |-> TRUE, pc |-> "begin", todo |-> {}, iters |-> 1, result |-> "none"]
DoneF(p, r) == [p EXCEPT !.pc = "done", !.result = r]
RaiseF(p)   == [p EXCEPT !.pc = "done", !.result = "error", !.C = {}]

\* ---- begin: fixed point / empty NFVS shortcuts, otherwise make_heuristic_retained_set (any values r) ----
BeginEarly(q) == IsState(q.sp) \/ (q.U = {} /\ ~q.pm)
BeginF(S, q, p, r) ==
    IF IsState(q.sp) THEN DoneF([p EXCEPT !.C = {StateOf(q.sp)}], "ok")
    ELSE IF q.U = {} /\ ~q.pm THEN DoneF([p EXCEPT !.C = {}], "ok")
    ELSE [p EXCEPT !.R = r, !.pc = "first"]

\* ---- the legacy shortcut: a retained set fixing every variable of an unexpanded root ----
ShortcutOn(S, q, p, legacy) == legacy /\ q.pm /\ \A i \in V(S.nt) : p.R[i] # 2
ShortcutF(p) == DoneF([p EXCEPT !.C = {StateOf(p.R)}], "ok")

\* ---- the first solver call ----
FirstLimit(q) == IF q.greedy THEN q.rsthr ELSE q.candlim
FirstF(S, q, p, X) ==
    LET full == (X = Fix(S, q, p.R)) IN
    IF ~q.greedy THEN
        IF Cardinality(X) = q.candlim THEN RaiseF(p)
        ELSE [p EXCEPT !.C = X, !.complete = full, !.pc = "postasp"]
    ELSE IF Cardinality(X) < q.rsthr THEN
        [p EXCEPT !.C = X, !.complete = full,
                  !.pc = IF Cardinality(X) > 1 \/ (~q.pm /\ Cardinality(X) > 0) THEN "greedy_then_postasp" ELSE "postasp"]
    ELSE [p EXCEPT !.R = NoR(S), !.C = {}, !.complete = TRUE, !.todo = q.U, !.pc = "regen0"]

\* ---- asp_greedy_retained_set_optimization: improving flips ----
GreedyPc(p) == p.pc \in {"greedy_then_postasp", "greedy_then_regen"}
\* the "standard termination checks" in front of every flip attempt
GreedyMayTry(q, p) == p.C # {} /\ ~(q.av = {} /\ Cardinality(p.C) = 1)
FlipOf(p, v) == [p.R EXCEPT ![v] = 1 - p.R[v]]
GreedyFlipF(S, q, p, v, X) == [p EXCEPT !.R = FlipOf(p, v), !.C = X, !.complete = (X = Fix(S, q, FlipOf(p, v)))]
GreedyStopF(p) == [p EXCEPT !.pc = IF p.pc = "greedy_then_postasp" THEN "postasp" ELSE "regen"]

\* ---- regeneration of the retained set ----
Regen0Solves(q, legacy) == q.U = {} /\ ~legacy
Regen0F(S, q, p, X, legacy) ==
    IF Regen0Solves(q, legacy) THEN
        IF Cardinality(X) = q.candlim THEN RaiseF(p)
        ELSE [p EXCEPT !.C = X, !.complete = (X = Fix(S, q, NoR(S))), !.pc = "regen"]
    ELSE [p EXCEPT !.pc = "regen"]
R0(p, v) == [p.R EXCEPT ![v] = 0]
R1(p, v) == [p.R EXCEPT ![v] = 1]
\* the zero list is taken without looking at the one list
ZeroWins(q, p, Z, legacy) == Cardinality(Z) <= Cardinality(p.C) /\ (legacy \/ Cardinality(Z) < q.candlim)
RegenF(S, q, p, v, Z, O, legacy) ==
    IF ZeroWins(q, p, Z, legacy) THEN
        [p EXCEPT !.R = R0(p, v), !.C = Z, !.complete = (Z = Fix(S, q, R0(p, v))), !.todo = p.todo \ {v}]
    ELSE IF Cardinality(Z) = q.candlim /\ Cardinality(O) = q.candlim THEN RaiseF(p)
    ELSE IF Cardinality(O) <= Cardinality(p.C) THEN
        [p EXCEPT !.R = R1(p, v), !.C = O, !.complete = (O = Fix(S, q, R1(p, v))), !.todo = p.todo \ {v}]
    ELSE LET zero == IF legacy THEN Cardinality(Z) < Cardinality(O) ELSE Cardinality(Z) <= Cardinality(O)
             rr == IF zero THEN R0(p, v) ELSE R1(p, v)
             cc == IF zero THEN Z ELSE O IN
         [p EXCEPT !.R = rr, !.C = cc, !.complete = (cc = Fix(S, q, rr)), !.todo = p.todo \ {v},
                   !.pc = IF Cardinality(cc) > q.rsthr THEN "greedy_then_regen" ELSE "regen"]
RegenDoneF(p) == [p EXCEPT !.pc = "postasp"]

\* ---- after the ASP stage ----
PostAspF(q, p) ==
    IF p.C = {} \/ (q.pm /\ Cardinality(p.C) = 1) \/ ~q.sim THEN DoneF(p, "ok")
    ELSE [p EXCEPT !.pc = "sim", !.iters = 1]

\* one simulation round: the candidates move along transitions, may merge, and are dropped when they reach another
\* candidate or an avoided space.  Any outcome of that kind; it never loses the last candidate of an own attractor.
IsSimOutcome(S, q, p, X) ==
    /\ X \subseteq UNION {S.reach[c] : c \in p.C}
    /\ Cardinality(X) <= Cardinality(p.C)
    /\ \A A \in Own(S, q) : (A \cap p.C # {}) => (A \cap X # {})
SimOutcomes(S, q, p) == {X \in SUBSET (UNION {S.reach[c] : c \in p.C}) : IsSimOutcome(S, q, p, X)}
SimF(q, p, X) ==
    IF X = {} THEN DoneF([p EXCEPT !.C = X], "ok")
    ELSE IF Cardinality(X) = Cardinality(p.C) /\ p.iters * Cardinality(X) > q.budget THEN DoneF([p EXCEPT !.C = X], "ok")
    ELSE IF Cardinality(X) = 1 /\ q.av = {} THEN DoneF([p EXCEPT !.C = X, !.iters = 2 * p.iters], "ok")
    ELSE [p EXCEPT !.C = X, !.iters = 2 * p.iters]

PcSet == {"begin", "first", "greedy_then_postasp", "greedy_then_regen", "regen0", "regen", "postasp", "sim", "done"}
=============================================================================
