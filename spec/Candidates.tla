----------------------------- MODULE Candidates -----------------------------
(***************************************************************************)
(* compute_attractor_candidates (attractor_candidates.py) as a state       *)
(* machine: NFVS, retained set, reduced-STG enumeration under solution     *)
(* limits, greedy flips, retained-set regeneration, simulation rounds.     *)
(*                                                                         *)
(* Everything heuristic is nondeterministic: the NFVS (any negative        *)
(* feedback vertex set of the node), the initial retained values (any      *)
(* assignment), WHICH solutions a limited enumeration returns (any subset  *)
(* of the right size), the order of greedy flips, the outcome of a         *)
(* simulation round (anything the random walk could produce).  The model   *)
(* checker therefore answers C08 at the design level: for every network of *)
(* the family, every node of its succession diagram (expanded or not),     *)
(* every option combination and every value of the numeric configuration   *)
(* fields, the pipeline either raises or returns a cover of the node's own *)
(* attractors - "settings change cost, never correctness" - and it         *)
(* terminates (C13).                                                       *)
(*                                                                         *)
(* The model describes the code after the fixes of DESIGN.md section 6;    *)
(* with Legacy = TRUE it is the code as found (shortcut, regeneration with *)
(* an empty NFVS, tie-break, limit 0) and TLC refutes Covers.              *)
(***************************************************************************)
EXTENDS Cand, Json, IOUtils

CONSTANTS NetMode,       \* "all2" | "file"
          CandLims,      \* values of attractor_candidates_limit
          Thresholds,    \* values of retained_set_optimization_threshold
          Budgets,       \* values of minimum_simulation_budget (abstract units)
          Legacy         \* TRUE: the code before the C08 fixes

\* S: semantic table of the network; q: the inputs of the run; p: the pipeline state (see Cand.tla)
VARIABLES S, q, p
vars == <<S, q, p>>

AllNets2 == LET TT == [1..4 -> {0, 1}] IN {[n |-> 2, f |-> <<a, b>>] : a \in TT, b \in TT}
FileNets == IF NetMode = "file" THEN ndJsonDeserialize(IF "CATALOGUE" \in DOMAIN IOEnv THEN IOEnv.CATALOGUE ELSE "catalogue.ndjson") ELSE <<>>
Nets == IF NetMode = "all2" THEN AllNets2 ELSE {FileNets[i].net : i \in DOMAIN FileNets}

Init == /\ \E net \in Nets : S = SemOf(net)
        /\ \E sp \in S.diag, expanded \in BOOLEAN, greedy \in BOOLEAN, sim \in BOOLEAN,
              candlim \in CandLims, rsthr \in Thresholds, budget \in Budgets :
              LET av == IF expanded THEN {S.ms[sp][k] : k \in DOMAIN S.ms[sp]} ELSE {} IN
              \E U \in {W \in SUBSET FreeV(sp) : IsNFVS(S.nt, W, sp)} :
                 q = [sp |-> sp, av |-> av, pm |-> (av = {}), U |-> U, greedy |-> greedy, sim |-> sim,
                      candlim |-> candlim, rsthr |-> rsthr, budget |-> budget]
        /\ p = P0(S)

Keep == UNCHANGED <<S, q>>

Begin == /\ p.pc = "begin" /\ Keep
         /\ IF BeginEarly(q) THEN p' = BeginF(S, q, p, NoR(S))
            ELSE \E r \in Assignments(S, q.U) : p' = BeginF(S, q, p, r)        \* make_heuristic_retained_set: any values

Shortcut == /\ p.pc = "first" /\ ShortcutOn(S, q, p, Legacy) /\ Keep
            /\ p' = ShortcutF(p)

First == /\ p.pc = "first" /\ ~ShortcutOn(S, q, p, Legacy) /\ Keep
         /\ \E X \in Solve(S, q, p.R, FirstLimit(q), Legacy) : p' = FirstF(S, q, p, X)

\* asp_greedy_retained_set_optimization: any sequence of improving flips; it may stop at any time
GreedyFlip == /\ GreedyPc(p) /\ GreedyMayTry(q, p) /\ Keep
              /\ \E v \in Fixed(p.R) :
                    \E X \in Solve(S, q, FlipOf(p, v), Cardinality(p.C), Legacy) :
                        /\ Cardinality(X) < Cardinality(p.C)
                        /\ p' = GreedyFlipF(S, q, p, v, X)
GreedyStop == /\ GreedyPc(p) /\ Keep /\ p' = GreedyStopF(p)

\* regeneration of the retained set, one NFVS variable per iteration (any order)
Regen0 == /\ p.pc = "regen0" /\ Keep
          /\ IF Regen0Solves(q, Legacy) THEN \E X \in Solve(S, q, NoR(S), q.candlim, Legacy) : p' = Regen0F(S, q, p, X, Legacy)
             ELSE p' = Regen0F(S, q, p, {}, Legacy)
Regen == /\ p.pc = "regen" /\ Keep
         /\ IF p.todo = {} THEN p' = RegenDoneF(p)
            ELSE \E v \in p.todo :
                 \E Z \in Solve(S, q, R0(p, v), q.candlim, Legacy) :
                    IF ZeroWins(q, p, Z, Legacy) THEN p' = RegenF(S, q, p, v, Z, {}, Legacy)
                    ELSE \E O \in Solve(S, q, R1(p, v), Cardinality(Z), Legacy) : p' = RegenF(S, q, p, v, Z, O, Legacy)

PostAsp == /\ p.pc = "postasp" /\ Keep /\ p' = PostAspF(q, p)

Sim == /\ p.pc = "sim" /\ Keep
       /\ \E X \in SimOutcomes(S, q, p) : p' = SimF(q, p, X)

Next == Begin \/ Shortcut \/ First \/ GreedyFlip \/ GreedyStop \/ Regen0 \/ Regen \/ PostAsp \/ Sim
Spec == Init /\ [][Next]_vars /\ WF_vars(Next)

(***************************************************************************)
(* Properties                                                              *)
(***************************************************************************)
TypeOK == p.pc \in PcSet
\* C08: a returned list covers every own attractor and consists of states of the node; an error returns nothing
Inv_Covers == (p.pc = "done" /\ p.result = "ok") => (CoversOwn(S, q, p.C) /\ \A s \in p.C : In(s, q.sp))
Inv_Error  == (p.pc = "done" /\ p.result = "error") => p.C = {}
\* the mechanism: whenever the pipeline leaves the ASP stage, its list is the complete fixed-point set of a retained
\* set that assigns exactly the NFVS (so the NFVS theorem T_NFVS applies)
Inv_Mechanism == (p.pc = "postasp") => (p.complete /\ Fixed(p.R) = q.U)
\* C13: the pipeline terminates (the simulation loop doubles its iteration count until the budget is exceeded)
Termination == <>(p.pc = "done")
\* state constraint for the liveness run: the iteration counter is bounded by what the budget can require
IterBound == p.iters <= 4 * (CHOOSE b \in Budgets : \A c \in Budgets : c <= b) + 4
=============================================================================
