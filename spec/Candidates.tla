----------------------------- MODULE Candidates -----------------------------
(***************************************************************************)
(* compute_attractor_candidates (attractor_candidates.py) as a state       *)
(* machine: NFVS, retained set, reduced-STG enumeration under solution     *)
(* limits, greedy flips, retained-set regeneration, simulation rounds.     *)
(*                                                                         *)
(* Everything heuristic is nondeterministic: the NFVS (any negative        *)
(* feedback vertex set of the node), the initial retained values (any      *)
(* assignment), WHICH solutions a limited enumeration returns (any subset  *)
(* of the right size), the order of greedy flips, the outcome of a         *)
(* simulation round (anything the random walk could produce).  The model   *)
(* checker therefore answers C08 at the design level: for every network of *)
(* the family, every node of its succession diagram (expanded or not),     *)
(* every option combination and every value of the numeric configuration   *)
(* fields, the pipeline either raises or returns a cover of the node's own *)
(* attractors - "settings change cost, never correctness" - and it         *)
(* terminates (C13).                                                       *)
(*                                                                         *)
(* The model describes the code after the fixes of DESIGN.md section 6;    *)
(* with Legacy = TRUE it is the code as found (shortcut, regeneration with *)
(* an empty NFVS, tie-break, limit 0) and TLC refutes Covers.              *)
(***************************************************************************)
EXTENDS BoolNet, Integers, FiniteSetsExt, Json, IOUtils

CONSTANTS NetMode,       \* "all2" | "file"
          CandLims,      \* values of attractor_candidates_limit
          Thresholds,    \* values of retained_set_optimization_threshold
          Budgets,       \* values of minimum_simulation_budget (abstract units)
          Legacy         \* TRUE: the code before the C08 fixes

VARIABLES S, sp, av, pm, U, greedy, sim, candlim, rsthr, budget,   \* inputs
          R, C, complete, pc, todo, iters, result                 \* pipeline state
vars == <<S, sp, av, pm, U, greedy, sim, candlim, rsthr, budget, R, C, complete, pc, todo, iters, result>>

AllNets2 == LET TT == [1..4 -> {0, 1}] IN {[n |-> 2, f |-> <<a, b>>] : a \in TT, b \in TT}
FileNets == IF NetMode = "file" THEN ndJsonDeserialize(IF "CATALOGUE" \in DOMAIN IOEnv THEN IOEnv.CATALOGUE ELSE "catalogue.ndjson") ELSE <<>>
Nets == IF NetMode = "all2" THEN AllNets2 ELSE {FileNets[i].net : i \in DOMAIN FileNets}

nt == S.nt
NoR == AllFree(nt)
Fix(r) == ReducedFP(nt, r, sp, av)
\* a solver call with solution limit L (-1 = none): any subset of the solutions of the right size
Solve(r, L) == IF L = -1 THEN {Fix(r)}
               ELSE LET n == Cardinality(Fix(r))
                        k == IF Legacy /\ L = 0 THEN (IF n = 0 THEN 0 ELSE 1) ELSE (IF n < L THEN n ELSE L)
                    IN {X \in SUBSET Fix(r) : Cardinality(X) = k}
Assignments(W) == {r \in Spaces(nt) : \A i \in V(nt) : (r[i] # 2) <=> (i \in W)}
Own == {A \in S.attr : (\A s \in A : In(s, sp)) /\ ~\E a \in av : \A s \in A : In(s, a)}
CoversOwn(X) == \A A \in Own : A \cap X # {}

Init == /\ \E net \in Nets : S = SemOf(net)
        /\ sp \in S.diag
        /\ \E expanded \in BOOLEAN : av = IF expanded THEN {S.ms[sp][k] : k \in DOMAIN S.ms[sp]} ELSE {}
        /\ pm = (av = {})
        /\ U \in {W \in SUBSET FreeV(sp) : IsNFVS(nt, W, sp)}
        /\ greedy \in BOOLEAN /\ sim \in BOOLEAN
        /\ candlim \in CandLims /\ rsthr \in Thresholds /\ budget \in Budgets
        /\ R = NoR /\ C = {} /\ complete = TRUE /\ pc = "begin" /\ todo = {} /\ iters = 1 /\ result = "none"

Go(p) == pc' = p
Keep == UNCHANGED <<S, sp, av, pm, U, greedy, sim, candlim, rsthr, budget>>
Done(r) == /\ pc' = "done" /\ result' = r /\ Keep
Raise == /\ pc' = "done" /\ result' = "error" /\ C' = {} /\ UNCHANGED <<R, complete, todo, iters>> /\ Keep

Begin == /\ pc = "begin"
         /\ IF IsState(sp) THEN /\ C' = {StateOf(sp)} /\ Done("ok") /\ UNCHANGED <<R, complete, todo, iters>>
            ELSE IF U = {} /\ ~pm THEN /\ C' = {} /\ Done("ok") /\ UNCHANGED <<R, complete, todo, iters>>
            ELSE /\ \E r \in Assignments(U) : R' = r              \* make_heuristic_retained_set: any values
                 /\ Go("first") /\ UNCHANGED <<C, complete, todo, iters, result>> /\ Keep

\* the legacy shortcut: a retained set fixing every variable of an unexpanded root
Shortcut == /\ Legacy /\ pc = "first" /\ pm /\ \A i \in V(nt) : R[i] # 2
            /\ C' = {StateOf(R)} /\ Done("ok") /\ UNCHANGED <<R, complete, todo, iters>>

First == /\ pc = "first"
         /\ ~(Legacy /\ pm /\ \A i \in V(nt) : R[i] # 2)
         /\ IF ~greedy THEN
               \E X \in Solve(R, candlim) :
                  IF Cardinality(X) = candlim THEN Raise
                  ELSE /\ C' = X /\ complete' = (X = Fix(R)) /\ Go("postasp") /\ UNCHANGED <<R, todo, iters, result>> /\ Keep
            ELSE \E X \in Solve(R, rsthr) :
                  IF Cardinality(X) < rsthr THEN
                      /\ C' = X /\ complete' = (X = Fix(R)) /\ UNCHANGED <<R, todo, iters, result>> /\ Keep
                      /\ Go(IF Cardinality(X) > 1 \/ (~pm /\ Cardinality(X) > 0) THEN "greedy_then_postasp" ELSE "postasp")
                  ELSE /\ R' = NoR /\ C' = {} /\ complete' = TRUE /\ todo' = U /\ Go("regen0")
                       /\ UNCHANGED <<iters, result>> /\ Keep

\* asp_greedy_retained_set_optimization: any sequence of improving flips; it may stop at any time
GreedyPc == pc \in {"greedy_then_postasp", "greedy_then_regen"}
AfterGreedy == IF pc = "greedy_then_postasp" THEN "postasp" ELSE "regen"
GreedyFlip == /\ GreedyPc
              /\ C # {} /\ ~(av = {} /\ Cardinality(C) = 1)
              /\ \E v \in Fixed(R) :
                    LET r2 == [R EXCEPT ![v] = 1 - R[v]] IN
                    \E X \in Solve(r2, Cardinality(C)) :
                        /\ Cardinality(X) < Cardinality(C)
                        /\ R' = r2 /\ C' = X /\ complete' = (X = Fix(r2))
              /\ UNCHANGED <<pc, todo, iters, result>> /\ Keep
GreedyStop == /\ GreedyPc /\ Go(AfterGreedy) /\ UNCHANGED <<R, C, complete, todo, iters, result>> /\ Keep

\* regeneration of the retained set, one NFVS variable per iteration (any order)
Regen0 == /\ pc = "regen0"
          /\ IF U = {} /\ ~Legacy THEN
                \E X \in Solve(NoR, candlim) :
                    IF Cardinality(X) = candlim THEN Raise
                    ELSE /\ C' = X /\ complete' = (X = Fix(NoR)) /\ Go("regen") /\ UNCHANGED <<R, todo, iters, result>> /\ Keep
             ELSE /\ Go("regen") /\ UNCHANGED <<R, C, complete, todo, iters, result>> /\ Keep
Regen == /\ pc = "regen"
         /\ IF todo = {} THEN /\ Go("postasp") /\ UNCHANGED <<R, C, complete, todo, iters, result>> /\ Keep
            ELSE \E v \in todo :
                 LET r0 == [R EXCEPT ![v] = 0]
                     r1 == [R EXCEPT ![v] = 1] IN
                 \E Z \in Solve(r0, candlim) :
                    IF Cardinality(Z) <= Cardinality(C) /\ (Legacy \/ Cardinality(Z) < candlim) THEN
                        /\ R' = r0 /\ C' = Z /\ complete' = (Z = Fix(r0)) /\ todo' = todo \ {v}
                        /\ UNCHANGED <<pc, iters, result>> /\ Keep
                    ELSE \E O \in Solve(r1, Cardinality(Z)) :
                        IF Cardinality(Z) = candlim /\ Cardinality(O) = candlim THEN Raise
                        ELSE IF Cardinality(O) <= Cardinality(C) THEN
                            /\ R' = r1 /\ C' = O /\ complete' = (O = Fix(r1)) /\ todo' = todo \ {v}
                            /\ UNCHANGED <<pc, iters, result>> /\ Keep
                        ELSE LET zero == IF Legacy THEN Cardinality(Z) < Cardinality(O) ELSE Cardinality(Z) <= Cardinality(O)
                                 rr == IF zero THEN r0 ELSE r1
                                 cc == IF zero THEN Z ELSE O IN
                             /\ R' = rr /\ C' = cc /\ complete' = (cc = Fix(rr)) /\ todo' = todo \ {v}
                             /\ Go(IF Cardinality(cc) > rsthr THEN "greedy_then_regen" ELSE "regen")
                             /\ UNCHANGED <<iters, result>> /\ Keep

PostAsp == /\ pc = "postasp"
           /\ IF C = {} \/ (pm /\ Cardinality(C) = 1) \/ ~sim THEN Done("ok") /\ UNCHANGED <<R, C, complete, todo, iters>>
              ELSE /\ Go("sim") /\ iters' = 1 /\ UNCHANGED <<R, C, complete, todo, result>> /\ Keep

\* one simulation round: the candidates move along transitions, may merge, and are dropped when they reach another
\* candidate or an avoided space.  Any outcome of that kind; it never loses the last candidate of an own attractor.
SimOutcomes ==
    LET reach == UNION {S.reach[c] : c \in C} IN
    {X \in SUBSET reach :
        /\ Cardinality(X) <= Cardinality(C)
        /\ \A A \in Own : (A \cap C # {}) => (A \cap X # {})}
Sim == /\ pc = "sim"
       /\ \E X \in SimOutcomes :
            /\ C' = X
            /\ IF X = {} THEN Done("ok") /\ UNCHANGED <<R, complete, todo, iters>>
               ELSE IF Cardinality(X) = Cardinality(C) /\ iters * Cardinality(X) > budget
                    THEN Done("ok") /\ UNCHANGED <<R, complete, todo, iters>>
               ELSE IF Cardinality(X) = 1 /\ av = {} THEN Done("ok") /\ UNCHANGED <<R, complete, todo>> /\ iters' = 2 * iters
               ELSE /\ iters' = 2 * iters /\ UNCHANGED <<R, complete, todo, pc, result>> /\ Keep

Next == Begin \/ Shortcut \/ First \/ GreedyFlip \/ GreedyStop \/ Regen0 \/ Regen \/ PostAsp \/ Sim
Spec == Init /\ [][Next]_vars /\ WF_vars(Next)

(***************************************************************************)
(* Properties                                                              *)
(***************************************************************************)
TypeOK == pc \in {"begin", "first", "greedy_then_postasp", "greedy_then_regen", "regen0", "regen", "postasp", "sim", "done"}
\* C08: a returned list covers every own attractor and consists of states of the node; an error returns nothing
Inv_Covers == (pc = "done" /\ result = "ok") => (CoversOwn(C) /\ \A s \in C : In(s, sp))
Inv_Error  == (pc = "done" /\ result = "error") => C = {}
\* the mechanism: whenever the pipeline leaves the ASP stage, its list is the complete fixed-point set of a retained
\* set that assigns exactly the NFVS (so the NFVS theorem T_NFVS applies)
Inv_Mechanism == (pc \in {"postasp", "sim"} /\ pc # "sim") => (complete /\ Fixed(R) = U)
\* C13: the pipeline terminates (the simulation loop doubles its iteration count until the budget is exceeded)
Termination == <>(pc = "done")
\* state constraint for the liveness run: the iteration counter is bounded by what the budget can require
IterBound == iters <= 4 * (CHOOSE b \in Budgets : \A c \in Budgets : c <= b) + 4
=============================================================================
