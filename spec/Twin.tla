--------------------------------- MODULE Twin ---------------------------------
(***************************************************************************)
(* Relational validation: two recorded executions are stepped in lock-step *)
(* and a relation between their projections is asserted after every pair   *)
(* of corresponding events.                                                *)
(*                                                                         *)
(*   rel = "same"   : everything logged is identical (C19: reproducibility *)
(*                    across processes / hash seeds / unrelated activity)  *)
(*   rel = "transp" : identical except raw candidate lists that were       *)
(*                    reclaimed on one side (C16: pickling / reclamation   *)
(*                    inserted anywhere is transparent)                    *)
(*   rel = "sigma"  : id-free isomorphism under a variable permutation +   *)
(*                    negation mask (C17: presentation independence)       *)
(*   rel = "fallback": run b computes every seed with the symbolic         *)
(*                    fallback; the same attractors node by node (C12)     *)
(*   rel = "below"  : run b (sources fixed to a valuation) is isomorphic   *)
(*                    to the part of run a below the node of that          *)
(*                    valuation, with the same attractors (C18)            *)
(*   rel = "resume" : same id-free diagram / minimal nodes at the end      *)
(*                    (C15: interrupted + resumed = uninterrupted)         *)
(*                                                                         *)
(* Input: ndjson (env TRACE_FILE): [tid, rel, perm, neg, a, b, map] where  *)
(* a, b are sequences of events [op, ret, out, post, ctl] and map[i] is    *)
(* the index in b of the event corresponding to a[i].                      *)
(***************************************************************************)
EXTENDS Integers, Sequences, FiniteSets, TLC, Json, IOUtils, TLCExt

Traces == ndJsonDeserialize(IOEnv.TRACE_FILE)
VARIABLES tr, l, bad
vars == <<tr, l, bad>>
SeqToSet(q) == {q[i] : i \in DOMAIN q}

\* sigma on spaces / states: variable i of a is variable perm[i] of b, negated if neg[i] = 1
SigmaSp(sp) == [j \in DOMAIN sp |->
                  LET i == CHOOSE k \in DOMAIN tr.perm : tr.perm[k] = j IN
                  IF sp[i] = 2 THEN 2 ELSE IF tr.neg[i] = 1 THEN 1 - sp[i] ELSE sp[i]]
P2 == <<1, 2, 4, 8, 16, 32, 64, 128, 256, 512, 1024, 2048, 4096>>
SigmaState(s, n) ==
    LET bitA(i) == (s \div P2[i]) % 2
        RECURSIVE Sum(_)
        Sum(i) == IF i = 0 THEN 0 ELSE ((IF tr.neg[i] = 1 THEN 1 - bitA(i) ELSE bitA(i)) * P2[tr.perm[i]]) + Sum(i - 1)
    IN Sum(n)

NodeFlags(nd) == <<nd.expanded, nd.skipped>>
IdFreeNodes(p, f(_)) == {<<f(p.nodes[i].space), NodeFlags(p.nodes[i])>> : i \in DOMAIN p.nodes}
IdFreeEdges(p, f(_)) == {<<f(p.nodes[p.edges[i].p].space), f(p.nodes[p.edges[i].c].space),
                           {f(p.edges[i].ms[k]) : k \in DOMAIN p.edges[i].ms}>> : i \in DOMAIN p.edges}
MinNodes(p, f(_)) == {f(p.nodes[i].space) : i \in {k \in DOMAIN p.nodes :
                          p.nodes[k].expanded /\ ~\E e \in DOMAIN p.edges : p.edges[e].p = k}}
SeedSets(p, f(_)) == {<<f(p.nodes[i].space), {f(p.nodes[i].seeds.v[k]) : k \in DOMAIN p.nodes[i].seeds.v}>> :
                         i \in {k \in DOMAIN p.nodes : p.nodes[k].seeds.k = 1}}
AttrSets(p, g(_)) == UNION {{ {g(s) : s \in SeqToSet(p.nodes[i].sets.v[k])} : k \in DOMAIN p.nodes[i].sets.v} :
                              i \in {k \in DOMAIN p.nodes : p.nodes[k].sets.k = 1}}
Id(x) == x

StripCand(p) == [p EXCEPT !.nodes = [i \in DOMAIN p.nodes |-> [p.nodes[i] EXCEPT !.cand = [k |-> 0, v |-> <<>>]]]]
CandCompatible(pa, pb) ==
    /\ Len(pa.nodes) = Len(pb.nodes)
    /\ \A i \in DOMAIN pa.nodes :
          (pa.nodes[i].cand.k = 1 /\ pb.nodes[i].cand.k = 1) => pa.nodes[i].cand = pb.nodes[i].cand

Related(ea, eb) ==
    CASE tr.rel = "same"   -> (IF ea.post = eb.post THEN {} ELSE {"POST"})
                              \cup (IF ea.ret = eb.ret /\ ea.out = eb.out /\ ea.ctl = eb.ctl THEN {} ELSE {"OUT"})
      [] tr.rel = "transp" -> (IF StripCand(ea.post) = StripCand(eb.post) /\ CandCompatible(ea.post, eb.post) THEN {} ELSE {"POST"})
                              \cup (IF ea.ret = eb.ret /\ ea.ctl = eb.ctl /\ (ea.op = "cand" \/ ea.out = eb.out) THEN {} ELSE {"OUT"})
      [] tr.rel = "sigma"  -> LET n == Len(tr.perm) IN
                              \* full BFS / DFS expansions are canonical: isomorphic diagrams; strategies that pick among
                              \* equally good nodes by id (block, SCC, minimal-space, attractor-seed) may legitimately expand
                              \* different parts: same minimal trap spaces and attractors
                              (IF tr.canonical => (/\ IdFreeNodes(ea.post, SigmaSp) = IdFreeNodes(eb.post, Id)
                                                   /\ IdFreeEdges(ea.post, SigmaSp) = IdFreeEdges(eb.post, Id)) THEN {} ELSE {"ISO"})
                              \cup (IF MinNodes(ea.post, SigmaSp) = MinNodes(eb.post, Id) THEN {} ELSE {"MIN"})
                              \cup (IF AttrSets(ea.post, LAMBDA s : SigmaState(s, n)) = AttrSets(eb.post, Id) THEN {} ELSE {"ATTR"})
                              \cup (IF ea.ret = eb.ret THEN {} ELSE {"OUT"})
      [] tr.rel = "resume" -> (IF /\ IdFreeNodes(ea.post, Id) = IdFreeNodes(eb.post, Id)
                                  /\ IdFreeEdges(ea.post, Id) = IdFreeEdges(eb.post, Id) THEN {} ELSE {"ISO"})
                              \cup (IF ea.ret = eb.ret THEN {} ELSE {"OUT"})
      [] tr.rel = "resume_min" -> (IF MinNodes(ea.post, Id) = MinNodes(eb.post, Id) THEN {} ELSE {"ISO"})
                              \cup (IF ea.ret = eb.ret THEN {} ELSE {"OUT"})
      [] tr.rel = "resume_seeds" ->
            \* the attractor query: the same attractors are found (as sets of seeds' ... the seeds are full states; a
            \* relaxed configuration may choose other representatives, so only their number per node is compared here;
            \* exactness of each run's seeds is judged by SDTrace)
            (IF \A i \in DOMAIN ea.post.nodes : i \in DOMAIN eb.post.nodes /\
                    (ea.post.nodes[i].seeds.k = 1 /\ eb.post.nodes[i].seeds.k = 1) =>
                        Len(ea.post.nodes[i].seeds.v) = Len(eb.post.nodes[i].seeds.v) THEN {} ELSE {"ISO"})
            \cup (IF ea.ret = eb.ret THEN {} ELSE {"OUT"})
      [] tr.rel = "below"  ->
            \* a: free-input network; b: inputs fixed to the valuation tr.val (a space); the sub-diagram of a
            \* below the node of that valuation equals the diagram of b (spaces of b all lie inside val)
            LET below == {i \in DOMAIN ea.post.nodes : \A j \in DOMAIN tr.val : tr.val[j] = 2 \/ ea.post.nodes[i].space[j] = tr.val[j]}
                na == {<<ea.post.nodes[i].space, NodeFlags(ea.post.nodes[i])>> : i \in below}
                eda == {<<ea.post.nodes[ea.post.edges[i].p].space, ea.post.nodes[ea.post.edges[i].c].space>> :
                           i \in {k \in DOMAIN ea.post.edges : ea.post.edges[k].p \in below}}
                edb == {<<eb.post.nodes[eb.post.edges[i].p].space, eb.post.nodes[eb.post.edges[i].c].space>> : i \in DOMAIN eb.post.edges}
                atA == UNION {{SeqToSet(ea.post.nodes[i].sets.v[k]) : k \in DOMAIN ea.post.nodes[i].sets.v} : i \in below}
                \* "the node for that input valuation": the node of a whose space is the root space of b.  Under full BFS / DFS
                \* it must exist; block expansion fixes all source variables of the percolated root at once (also those that
                \* became sources by percolating constants), so the node of a single input valuation may not exist - then only
                \* the attractors below the valuation are compared
                hasval == \E i \in DOMAIN ea.post.nodes : ea.post.nodes[i].space = eb.post.nodes[1].space
            IN (IF (hasval \/ tr.canonical) => (na = IdFreeNodes(eb.post, Id) /\ eda = edb) THEN {} ELSE {"ISO"})
               \cup (IF atA = AttrSets(eb.post, Id) THEN {} ELSE {"ATTR"})
      [] tr.rel = "fallback" ->
            \* C12: a = the history with the default attractor method, b = the same history with every seed computed by the
            \* fully symbolic fallback (forced by a tiny candidate limit): node by node the same attractors
            LET NodeAttr(nd) == {SeqToSet(nd.sets.v[k]) : k \in DOMAIN nd.sets.v} IN
            (IF /\ Len(ea.post.nodes) = Len(eb.post.nodes)
                /\ \A i \in DOMAIN ea.post.nodes :
                      /\ ea.post.nodes[i].space = eb.post.nodes[i].space
                      /\ ea.post.nodes[i].sets.k = eb.post.nodes[i].sets.k
                      /\ NodeAttr(ea.post.nodes[i]) = NodeAttr(eb.post.nodes[i])
                      /\ Len(ea.post.nodes[i].sets.v) = Len(eb.post.nodes[i].sets.v)
             THEN {} ELSE {"ATTR"})
      [] OTHER -> {"UNKNOWN"}

Init == /\ \E i \in DOMAIN Traces : tr = Traces[i]
        /\ l = 1
        /\ bad = {}
Next == /\ l <= Len(tr.map)
        /\ bad' = Related(tr.a[l], tr.b[tr.map[l]])
        /\ l' = l + 1
        /\ UNCHANGED tr
Spec == Init /\ [][Next]_vars

Report(name, ok) == ok \/ (PrintT(<<"VIOL", name, tr.tid, l - 1, tr.rel>>) /\ FALSE)
Inv_POST == Report("POST", "POST" \notin bad)
Inv_OUT  == Report("OUT", "OUT" \notin bad)
Inv_ISO  == Report("ISO", "ISO" \notin bad)
Inv_ATTR == Report("ATTR", "ATTR" \notin bad)
Inv_MIN  == Report("MIN", "MIN" \notin bad)
Inv_UNKNOWN == Report("UNKNOWN", "UNKNOWN" \notin bad)
Done == l > Len(tr.map)
Accepted == Done => PrintT(<<"DONE", tr.tid, Len(tr.map)>>)
=============================================================================
