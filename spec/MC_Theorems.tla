----------------------------- MODULE MC_Theorems -----------------------------
(***************************************************************************)
(* Stateless theorems: the definitions of BoolNet.tla are consistent with  *)
(* each other and the mechanisms biobalm relies on are sound for ALL       *)
(* choices (every NFVS, every retained assignment), on every network of    *)
(* the chosen family.  One initial state per network; no transitions.      *)
(***************************************************************************)
EXTENDS BoolNet, Integers, SequencesExt, FiniteSetsExt, Json, IOUtils

CONSTANT NetMode   \* "all2" | "file"
VARIABLE S
AllNets2 == LET TT == [1..4 -> {0, 1}] IN {[n |-> 2, f |-> <<a, b>>] : a \in TT, b \in TT}
FileNets == IF NetMode = "file" THEN ndJsonDeserialize(IF "CATALOGUE" \in DOMAIN IOEnv THEN IOEnv.CATALOGUE ELSE "catalogue.ndjson") ELSE <<>>
Nets == IF NetMode = "all2" THEN AllNets2 ELSE {FileNets[i].net : i \in DOMAIN FileNets}

Init == \E nt \in Nets : S = SemOf(nt)
Next == UNCHANGED S
Spec == Init /\ [][Next]_S

nt == S.nt
\* C11: percolation is idempotent, stays inside trap spaces and keeps them trap spaces
T_Perc == \A sp \in Spaces(nt) :
            /\ Perc(nt, Perc(nt, sp)) = Perc(nt, sp)
            /\ Sub(Perc(nt, sp), sp)
            /\ IsTrap(nt, sp) => IsTrap(nt, Perc(nt, sp))
            /\ IsTrap(nt, sp) => \A A \in S.attr : (\A s \in A : In(s, sp)) => \A s \in A : In(s, Perc(nt, sp))
\* attractors: reachability definition = minimal closed sets
Closed(X) == \A s \in X : Post(nt, s) \subseteq X
T_Attr == /\ \A A \in S.attr : A # {} /\ Closed(A) /\ \A s, t \in A : t \in S.reach[s]
          /\ \A s \in States(nt) : \E A \in S.attr : A \subseteq S.reach[s]
          /\ \A A, B \in S.attr : A # B => A \cap B = {}
\* every minimal trap space contains an attractor; every attractor lies in a node of the diagram
T_MinTrap == /\ \A t \in S.mint : \E A \in S.attr : \A s \in A : In(s, t)
             /\ S.mint \subseteq S.diag
             /\ \A t \in S.diag : t \in S.traps /\ Perc(nt, t) = t
             /\ {t \in S.diag : S.ms[t] = <<>>} = S.mint
\* C08 mechanism: for every node of the diagram, every negative feedback vertex set U of the
\* network on that space and every assignment R to U, the fixed points of the reduced transition
\* graph outside the child motifs hit every attractor of the node that is in no child motif
Assignments(U) == {r \in Spaces(nt) : \A i \in V(nt) : (r[i] # 2) <=> (i \in U)}
T_NFVS == \A sp \in S.diag :
            LET av == {S.ms[sp][k] : k \in DOMAIN S.ms[sp]}
                own == {A \in S.attr : (\A s \in A : In(s, sp)) /\ ~\E a \in av : \A s \in A : In(s, a)} IN
            \A U \in SUBSET FreeV(sp) : IsNFVS(nt, U, sp) =>
                \A R \in Assignments(U) :
                    \A A \in own : A \cap ReducedFP(nt, R, sp, av) # {}
\* ... and also for an unexpanded node (no avoided motifs)
T_NFVS0 == \A sp \in S.diag :
            LET own == {A \in S.attr : \A s \in A : In(s, sp)} IN
            \A U \in SUBSET FreeV(sp) : IsNFVS(nt, U, sp) =>
                \A R \in Assignments(U) : \A A \in own : A \cap ReducedFP(nt, R, sp, {}) # {}
\* time reversal is an involution and trap spaces of the reversal are closed backwards
T_Rev == /\ RevNet(RevNet(nt)).f = [i \in V(nt) |-> [k \in 1..P2[nt.n + 1] |-> nt.f[i][k]]]
         /\ \A t \in Traps(RevNet(nt)) : \A s \in States(nt) : (\E u \in Post(nt, s) : In(u, t)) /\ ~In(s, t) => FALSE
\* maximal trap spaces in a node are trap spaces strictly inside it, and every minimal trap space
\* inside the node is inside one of its children
T_Succ == \A sp \in S.diag :
            /\ \A k \in DOMAIN S.ms[sp] : S.ms[sp][k] \in S.traps /\ Sub(S.ms[sp][k], sp) /\ S.ms[sp][k] # sp
            /\ \A t \in S.mint : (Sub(t, sp) /\ t # sp) => \E k \in DOMAIN S.ms[sp] : Sub(t, Perc(nt, S.ms[sp][k]))
=============================================================================
