------------------------------ MODULE PureTrace ------------------------------
(***************************************************************************)
(* Validation of the pure (stateless) functions of biobalm against the     *)
(* definitions of BoolNet.tla: one event per recorded call.                *)
(*                                                                         *)
(*   trappist                       (C09)                                  *)
(*   compute_fixed_point_reduced_STG (C09)                                 *)
(*   network_to_petrinet, restrict_petrinet_to_subspace,                   *)
(*   percolate_network              (C10)                                  *)
(*   percolate_space / _strict / percolation_conflicts,                    *)
(*   find_single_node_LDOIs, find_single_drivers (C11)                     *)
(*                                                                         *)
(* Input: ndjson (env TRACE_FILE); one line = one network with its calls:  *)
(*   [tid, net, events]; every event has all fields (unused ones carry     *)
(*   defaults) so that records are uniform.                                *)
(***************************************************************************)
EXTENDS BoolNet, Integers, SequencesExt, FiniteSetsExt, Json, IOUtils, TLCExt

Traces == ndJsonDeserialize(IOEnv.TRACE_FILE)

VARIABLES tr, P, l, ev, bad
vars == <<tr, P, l, ev, bad>>

SeqToSet(q) == {q[i] : i \in DOMAIN q}
NoDup(q) == \A i, j \in DOMAIN q : q[i] = q[j] => i = j

\* per-network table: the trap spaces of the network and of its time reversal
LightSem(nt) == [nt |-> nt, traps |-> {}, rtraps |-> {}, srcs |-> {}]
PureSem(nt) == [nt |-> nt, traps |-> TLCEval(Traps(nt)), rtraps |-> TLCEval(Traps(RevNet(nt))),
                srcs |-> TLCEval(Sources(nt))]

(***************************************************************************)
(* C09                                                                     *)
(***************************************************************************)
\* e.srcs: sequence of variable indices; e.autosrc: the library extracted them itself
SrcsOf(e) == IF e.autosrc THEN P.srcs ELSE SeqToSet(e.srcs)
TrapFeasible(e) ==
    {t \in (IF e.rev THEN P.rtraps ELSE P.traps) :
        Sub(t, e.ensure) /\ \A i \in DOMAIN e.avoid : ~Sub(t, e.avoid[i])}
TrappistSpec(e) ==
    CASE e.problem = "min" -> Minimal(TrapFeasible(e))
      [] e.problem = "max" -> Maximal({t \in TrapFeasible(e) :
                                  /\ \E i \in DOMAIN t : t[i] # 2 /\ e.ensure[i] = 2
                                  /\ \A i \in SrcsOf(e) : t[i] # 2})
      [] e.problem = "fix" -> {t \in TrapFeasible(e) : IsState(t)}
LimitedOK(res, E, limit) ==
    /\ NoDup(res)
    /\ SeqToSet(res) \subseteq E
    /\ IF limit = -1 THEN SeqToSet(res) = E
       ELSE Len(res) = (IF Cardinality(E) < limit THEN Cardinality(E) ELSE limit)
TrappistOK(e) == LimitedOK(e.res, TrappistSpec(e), e.limit)

ReducedOK(e) ==
    LET E == {StateSpace(P.nt, s) : s \in ReducedFP(P.nt, e.retained, e.ensure, SeqToSet(e.avoid))}
    IN LimitedOK(e.res, E, e.limit)

(***************************************************************************)
(* C10.  A Petri net is logged as its variables (indices into the          *)
(* network) and its transitions [v, up, pre] (pre: cube over the network   *)
(* variables, 2 = no arc).                                                 *)
(***************************************************************************)
Enabled(t, s) == /\ Bit(s, t.v) = (IF t.up THEN 0 ELSE 1)
                 /\ \A i \in DOMAIN t.pre : t.pre[i] = 2 \/ t.pre[i] = Bit(s, i)
PNMoves(pn, i, up, s) == \E k \in DOMAIN pn : pn[k].v = i /\ pn[k].up = up /\ Enabled(pn[k], s)
TransWF(pn, vs) == \A k \in DOMAIN pn :
    /\ pn[k].v \in vs
    /\ pn[k].pre[pn[k].v] = (IF pn[k].up THEN 0 ELSE 1)
    /\ \A i \in DOMAIN pn[k].pre : pn[k].pre[i] # 2 => i \in vs
\* the net over variables vs encodes the dynamics of those variables on every state of sp
EncodesOn(pn, vs, sp) ==
    /\ TransWF(pn, vs)
    /\ \A s \in StOf(P.nt, sp) : \A i \in vs :
          /\ PNMoves(pn, i, TRUE, s)  <=> (Bit(s, i) = 0 /\ F(P.nt, i, s) = 1)
          /\ PNMoves(pn, i, FALSE, s) <=> (Bit(s, i) = 1 /\ F(P.nt, i, s) = 0)
PNOK(e) == SeqToSet(e.pnvars) = V(P.nt) /\ NoDup(e.pnvars) /\ EncodesOn(e.pn, V(P.nt), AllFree(P.nt))
\* restriction of the (logged) input net e.pn0 over e.pnvars0 to the subspace e.sp
RestrictOK(e) ==
    /\ NoDup(e.pnvars)
    /\ SeqToSet(e.pnvars) = SeqToSet(e.pnvars0) \ Fixed(e.sp)
    /\ EncodesOn(e.pn, SeqToSet(e.pnvars), e.sp0meet)
\* percolate_network(bn, sp, remove_constants): e.gvars = variables of the result (indices),
\* e.gtt[k] = truth table of its k-th variable over the states of the ORIGINAL variable set
\* (the harness evaluates the returned network; variables it does not have are ignored)
PercNetOK(e) ==
    LET ps == Perc(P.nt, e.sp)
        tp == IsTrap(P.nt, ps) IN
    /\ NoDup(e.gvars)
    /\ tp => SeqToSet(e.gvars) = (IF e.remove THEN FreeV(ps) ELSE V(P.nt))
    /\ \A k \in DOMAIN e.gvars :
          LET i == e.gvars[k] IN
          IF ps[i] # 2 THEN tp => \A s \in StOf(P.nt, ps) : e.gtt[k][s + 1] = ps[i]   \* fixed variables become constants
          ELSE \A s \in StOf(P.nt, ps) : e.gtt[k][s + 1] = F(P.nt, i, s)

(***************************************************************************)
(* C11                                                                     *)
(***************************************************************************)
NonConst == V(P.nt) \ Constants(P.nt)
\* free inputs (variables without an update function) have identity dynamics but no function that could
\* "confirm" a given value: the strict variant never reports them
Inputs == {tr.net.inp[k] : k \in DOMAIN tr.net.inp}
RECURSIVE PercNC(_)
PercNC(sp) ==      \* propagation that never fixes a variable whose update function is a constant
    LET nx == [i \in V(P.nt) |-> IF sp[i] # 2 \/ i \notin NonConst THEN sp[i] ELSE ConstOn(P.nt, i, sp)]
    IN IF nx = sp THEN sp ELSE PercNC(nx)
PercStrictSpec(sp) ==
    LET r == PercNC(sp)
    IN [i \in V(P.nt) |-> IF i \in NonConst \ Inputs /\ r[i] # 2 /\ ConstOn(P.nt, i, r) = r[i] THEN r[i] ELSE 2]
\* percolation_conflicts: variables of the percolated (reported) space whose function is constant
\* on it with the other value
ConflictsOf(rep) == {i \in V(P.nt) : rep[i] # 2 /\ ConstOn(P.nt, i, rep) # 2 /\ ConstOn(P.nt, i, rep) # rep[i]}
PercOK(e) == e.res1 = Perc(P.nt, e.sp)
PercIdem(e) == Perc(P.nt, e.res1) = e.res1
PercTrap(e) == IsTrap(P.nt, e.sp) => IsTrap(P.nt, e.res1) /\ Sub(e.res1, e.sp)
StrictOK(e) == e.res1 = PercStrictSpec(e.sp)
ConflictsOK(e) ==
    SeqToSet(e.res2) = ConflictsOf(IF e.strict THEN PercStrictSpec(e.sp) ELSE Perc(P.nt, e.sp)) /\ NoDup(e.res2)
\* find_single_node_LDOIs: e.ldoi = sequence of [v, val, sp]
LdoiOK(e) ==
    /\ {<<e.ldoi[k].v, e.ldoi[k].val>> : k \in DOMAIN e.ldoi} = NonConst \X {0, 1}
    /\ Len(e.ldoi) = 2 * Cardinality(NonConst)
    /\ \A k \in DOMAIN e.ldoi :
          e.ldoi[k].sp = PercStrictSpec([i \in V(P.nt) |-> IF i = e.ldoi[k].v THEN e.ldoi[k].val ELSE 2])
\* find_single_drivers(target): e.drv = sequence of [v, val]
DriversOK(e) ==
    LET Ld(v, x) == PercStrictSpec([i \in V(P.nt) |-> IF i = v THEN x ELSE 2])
        exp == {p \in NonConst \X {0, 1} :
                   \A i \in V(P.nt) : e.sp[i] # 2 => (Ld(p[1], p[2])[i] = e.sp[i] \/ (i = p[1] /\ p[2] = e.sp[i]))}
    IN {<<e.drv[k].v, e.drv[k].val>> : k \in DOMAIN e.drv} = exp /\ Len(e.drv) = Cardinality(exp)

\* repository models, per update function over its support (locality): only the function of
\* variable e.v of the local network is defined
PnVarOK(e) ==
    /\ \A k \in DOMAIN e.pn : e.pn[k].v = e.v /\ e.pn[k].pre[e.v] = (IF e.pn[k].up THEN 0 ELSE 1)
    /\ \A s \in StOf(P.nt, e.sp) :
          /\ PNMoves(e.pn, e.v, TRUE, s)  <=> (Bit(s, e.v) = 0 /\ F(P.nt, e.v, s) = 1)
          /\ PNMoves(e.pn, e.v, FALSE, s) <=> (Bit(s, e.v) = 1 /\ F(P.nt, e.v, s) = 0)
FnLocalOK(e) == \A s \in StOf(P.nt, e.sp) : e.gtt[1][s + 1] = F(P.nt, e.v, s)
\* e.sp: the percolated values of the other local variables; e.val: what percolation says about e.v.
\* derived value: the function must be constant with that value; left free: the function must not be constant;
\* given value: kept whatever the function says
PercLocalOK(e) ==
    IF e.given THEN e.val # 2
    ELSE IF e.val # 2 THEN ConstOn(P.nt, e.v, e.sp) = e.val
    ELSE ConstOn(P.nt, e.v, e.sp) = 2

\* C17: sanitize_network_names.  Names are sequences of character codes.
SafeCodes == (48..57) \cup (65..90) \cup (97..122) \cup {95}
SanitizeOK(e) ==
    /\ Len(e.names_out) = P.nt.n
    /\ \A i \in DOMAIN e.names_out : e.names_out[i] # <<>> /\ \A k \in DOMAIN e.names_out[i] : e.names_out[i][k] \in SafeCodes
    /\ NoDup(e.names_out)
    /\ \A i \in DOMAIN e.names_in :        \* names that were already safe are kept
          (\A k \in DOMAIN e.names_in[i] : e.names_in[i][k] \in SafeCodes) => e.names_out[i] = e.names_in[i]
    /\ \A i \in V(P.nt) : \A s \in States(P.nt) : e.gtt[i][s + 1] = F(P.nt, i, s)     \* dynamics unchanged

Verdict(e) ==
    CASE e.k = "trappist"  -> IF TrappistOK(e) THEN {} ELSE {"TRAPPIST"}
      [] e.k = "reduced"   -> IF ReducedOK(e) THEN {} ELSE {"REDUCED"}
      [] e.k = "pn"        -> IF PNOK(e) THEN {} ELSE {"PN"}
      [] e.k = "restrict"  -> IF RestrictOK(e) THEN {} ELSE {"RESTRICT"}
      [] e.k = "percnet"   -> IF PercNetOK(e) THEN {} ELSE {"PERCNET"}
      [] e.k = "perc"      -> (IF PercOK(e) THEN {} ELSE {"PERC"}) \cup (IF PercIdem(e) /\ PercTrap(e) THEN {} ELSE {"PERCLAW"})
      [] e.k = "strict"    -> IF StrictOK(e) THEN {} ELSE {"STRICT"}
      [] e.k = "conflicts" -> IF ConflictsOK(e) THEN {} ELSE {"CONFLICTS"}
      [] e.k = "ldoi"      -> IF LdoiOK(e) THEN {} ELSE {"LDOI"}
      [] e.k = "drivers"   -> IF DriversOK(e) THEN {} ELSE {"DRIVERS"}
      [] e.k = "sanitize"  -> IF SanitizeOK(e) THEN {} ELSE {"SANITIZE"}
      [] e.k = "pnvar"     -> IF PnVarOK(e) THEN {} ELSE {"PN"}
      [] e.k = "fnlocal"   -> IF FnLocalOK(e) THEN {} ELSE {"PERCNET"}
      [] e.k = "perclocal" -> IF PercLocalOK(e) THEN {} ELSE {"PERC"}
      [] OTHER             -> {"UNKNOWN"}

Init == /\ \E i \in DOMAIN Traces : tr = Traces[i]
        /\ P = (IF tr.light THEN LightSem(tr.net) ELSE PureSem(tr.net))
        /\ l = 1
        /\ ev = [k |-> "init"]
        /\ bad = {}
Next == /\ l <= Len(tr.events)
        /\ ev' = tr.events[l]
        /\ bad' = (IF tr.events[l].raised THEN {"RAISED"} ELSE Verdict(tr.events[l]))
        /\ l' = l + 1
        /\ UNCHANGED <<tr, P>>
Spec == Init /\ [][Next]_vars

Report(name, ok) == ok \/ (PrintT(<<"VIOL", name, tr.tid, l - 1, ev.k>>) /\ FALSE)
Inv_TRAPPIST  == Report("TRAPPIST", "TRAPPIST" \notin bad)
Inv_REDUCED   == Report("REDUCED", "REDUCED" \notin bad)
Inv_PN        == Report("PN", "PN" \notin bad)
Inv_RESTRICT  == Report("RESTRICT", "RESTRICT" \notin bad)
Inv_PERCNET   == Report("PERCNET", "PERCNET" \notin bad)
Inv_PERC      == Report("PERC", "PERC" \notin bad)
Inv_PERCLAW   == Report("PERCLAW", "PERCLAW" \notin bad)
Inv_STRICT    == Report("STRICT", "STRICT" \notin bad)
Inv_CONFLICTS == Report("CONFLICTS", "CONFLICTS" \notin bad)
Inv_LDOI      == Report("LDOI", "LDOI" \notin bad)
Inv_DRIVERS   == Report("DRIVERS", "DRIVERS" \notin bad)
Inv_SANITIZE  == Report("SANITIZE", "SANITIZE" \notin bad)
Inv_RAISED    == Report("RAISED", "RAISED" \notin bad)
Inv_UNKNOWN   == Report("UNKNOWN", "UNKNOWN" \notin bad)
\* C13 for the pure functions: the call returned (the recorder's watchdog did not fire)
Inv_HANG      == Report("HANG", ~("hang" \in DOMAIN ev /\ ev.hang))

Done == l > Len(tr.events)
Accepted == Done => PrintT(<<"DONE", tr.tid, Len(tr.events)>>)
=============================================================================
