SPECIFICATION Spec
INVARIANT Inv_PROJ
INVARIANT Inv_MTS
INVARIANT Inv_STRUCT
INVARIANT Inv_IDS
INVARIANT Inv_DEPTHC
INVARIANT Inv_IDX
INVARIANT Inv_CACHE
INVARIANT Inv_RET
INVARIANT Inv_OUT
INVARIANT Inv_XL
INVARIANT Inv_ORACLE
INVARIANT Inv_HANG
INVARIANT Inv_WF
INVARIANT Inv_IndexExact
INVARIANT Inv_PartialFaithful
INVARIANT Inv_PlainOnly
INVARIANT Inv_DepthExact
INVARIANT Inv_CacheFresh
INVARIANT Inv_FullExact
INVARIANT Inv_MinExact
INVARIANT Inv_RetFalse
INVARIANT Inv_SeedsAll
INVARIANT Accepted
CHECK_DEADLOCK FALSE
