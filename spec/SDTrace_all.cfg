\* trace validation with every verdict clause and every mechanism diagnostic:  TRACE_FILE=<ndjson> tlc -continue -config SDTrace_all.cfg SDTrace.tla
SPECIFICATION Spec
INVARIANT Inv_PROJ
INVARIANT Inv_QUERY
INVARIANT Inv_HANG
INVARIANT Inv_LOOP
INVARIANT Inv_WORK
INVARIANT Inv_WF
INVARIANT Inv_IndexExact
INVARIANT Inv_PartialFaithful
INVARIANT Inv_PlainOnly
INVARIANT Inv_DepthExact
INVARIANT Inv_CacheFresh
INVARIANT Inv_CacheDiscard
INVARIANT Inv_Covers
INVARIANT Inv_SetsFresh
INVARIANT Inv_FullExact
INVARIANT Inv_MinExact
INVARIANT Inv_RetFalse
INVARIANT Inv_TrueMeansClosed
INVARIANT Inv_SeedsAll
INVARIANT Inv_C01
INVARIANT Dev_MTS
INVARIANT Dev_STRUCT
INVARIANT Dev_IDS
INVARIANT Dev_DEPTH
INVARIANT Dev_IDX
INVARIANT Dev_CACHE
INVARIANT Dev_RET
INVARIANT Dev_OUT
INVARIANT Dev_XL
INVARIANT Dev_ORACLE
INVARIANT Dev_LOOPMECH
INVARIANT Accepted
CHECK_DEADLOCK FALSE
