SPECIFICATION Spec
INVARIANT Inv_MECH
INVARIANT Inv_COVERS
INVARIANT Inv_COMPLETE
INVARIANT Accepted
CHECK_DEADLOCK FALSE
