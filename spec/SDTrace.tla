------------------------------- MODULE SDTrace -------------------------------
(***************************************************************************)
(* Trace validation for the succession-diagram machine.                    *)
(*                                                                         *)
(* Input: an ndjson file (env TRACE_FILE), one recorded trace per line:    *)
(*   [tid, net, cfg, events]; each event carries the public call, its      *)
(*   arguments, return value, the solver-order / oracle inputs, and the    *)
(*   full projection `post` of the implementation's diagram after it.      *)
(*                                                                         *)
(* Each step consumes one event: the machine of SD.tla is run from the     *)
(* previously logged state with the logged arguments, and what it produces *)
(* is compared clause by clause with what was logged (`bad` = set of       *)
(* failing clause tags).  The state then continues from the logged         *)
(* projection, so every event of every trace is examined and a deviation   *)
(* is attributed to a clause.  All state invariants of SD.tla are          *)
(* evaluated on every logged state.                                        *)
(***************************************************************************)
EXTENDS SD, Json, IOUtils, TLCExt

Traces == ndJsonDeserialize(IOEnv.TRACE_FILE)

VARIABLES tr,      \* the trace being validated
          S,       \* semantic table of its network
          l,       \* next event
          D,       \* diagram: the logged projection after event l-1
          ev,      \* the event consumed last (op "init" before the first)
          pre,     \* the diagram before that event
          bad,     \* failing clauses of the last event
          plain,   \* only plain expansion calls so far
          mode     \* "fresh" | "complete" (a complete default strategy just finished on a fresh diagram) | "other"

vars == <<tr, S, l, D, ev, pre, bad, plain, mode>>

(***************************************************************************)
(* projection -> abstract diagram                                          *)
(***************************************************************************)
FromProj(p) ==
    [nodes |-> [i \in DOMAIN p.nodes |->
                   [space |-> p.nodes[i].space, expanded |-> p.nodes[i].expanded,
                    skipped |-> p.nodes[i].skipped, depth |-> p.nodes[i].depth, how |-> p.nodes[i].how,
                    cand |-> p.nodes[i].cand, seeds |-> p.nodes[i].seeds, sets |-> p.nodes[i].sets]],
     edges |-> [e \in {<<p.edges[i].p, p.edges[i].c>> : i \in DOMAIN p.edges} |->
                   (CHOOSE x \in SeqToSet(p.edges) : x.p = e[1] /\ x.c = e[2]).ms],
     idx   |-> [sp \in {p.idx[i].sp : i \in DOMAIN p.idx} |->
                   (CHOOSE x \in SeqToSet(p.idx) : x.sp = sp).id]]

ProjWF(p) ==
    /\ \A i, j \in DOMAIN p.edges : (p.edges[i].p = p.edges[j].p /\ p.edges[i].c = p.edges[j].c) => i = j
    /\ \A i, j \in DOMAIN p.idx : p.idx[i].sp = p.idx[j].sp => i = j
    /\ \A i \in DOMAIN p.edges : p.edges[i].ms # <<>> /\ p.edges[i].motif = p.edges[i].ms[1]
    /\ p.len = Len(p.nodes)
    /\ p.ids = [i \in 1..Len(p.nodes) |-> i]
    \* every logged space is a vector over {0, 1, free}: the recorder logs code 9 for a space that mentions names the network
    \* does not have
    /\ \A i \in DOMAIN p.nodes : \A j \in DOMAIN p.nodes[i].space : p.nodes[i].space[j] \in {0, 1, 2}
    /\ \A i \in DOMAIN p.edges : \A k \in DOMAIN p.edges[i].ms : \A j \in DOMAIN p.edges[i].ms[k] : p.edges[i].ms[k][j] \in {0, 1, 2}
    /\ \A i \in DOMAIN p.nodes : \A k \in DOMAIN p.nodes[i].seeds.v : \A j \in DOMAIN p.nodes[i].seeds.v[k] : p.nodes[i].seeds.v[k][j] \in {0, 1, 2}
    /\ \A i \in DOMAIN p.nodes : \A k \in DOMAIN p.nodes[i].cand.v : \A j \in DOMAIN p.nodes[i].cand.v[k] : p.nodes[i].cand.v[k][j] \in {0, 1, 2}

CfgOf(e) == [maxm |-> tr.cfg.maxm, failat |-> e.fail_at]
Ret(b) == IF b THEN "true" ELSE "false"
NoFb == [on |-> FALSE, seeds |-> <<>>, sets |-> <<>>]

(***************************************************************************)
(* What the specification says event e does to diagram d.                  *)
(* Result: [d, ret, out, xl, unsound, adopt]                               *)
(***************************************************************************)
Res(d, r) == [d |-> d, ret |-> r, out |-> <<>>, xl |-> <<>>, unsound |-> FALSE, adopt |-> FALSE]
FrameRes(r) == [d |-> r[1], ret |-> r[2].ret, out |-> <<>>, xl |-> r[2].xl,
                unsound |-> (r[2].op \in {"aseeds", "block"} /\ r[2].unsound), adopt |-> FALSE]
Driver(d, f, e) == FrameRes(RunFrame(S, CfgOf(e), d, f, e.orc))
CallRes(r) == [d |-> r[1], ret |-> IF r[3] THEN "error" ELSE "ok", out |-> r[2], xl |-> <<>>,
               unsound |-> FALSE, adopt |-> FALSE]

\* the candidate list the pipeline produced (adopted from the log; judged by Covers)
PipeC(e, got) == IF e.raised THEN Unknown ELSE got.nodes[e.n].cand
FbOf(e, got) == [on |-> e.fallback,
                 seeds |-> got.nodes[e.n].seeds.v, sets |-> got.nodes[e.n].sets.v]

\* C20: find_node, summary, is_subgraph / is_isomorphic
FindSpec(d, q) == IF \E n \in Ids(d) : d.nodes[n].space = q THEN CHOOSE n \in Ids(d) : d.nodes[n].space = q ELSE 0
SummarySpec(d) ==
    LET withSeeds == SelectSeq([n \in DOMAIN d.nodes |-> n], LAMBDA n : d.nodes[n].seeds.k = 1 /\ d.nodes[n].seeds.v # <<>>)
    IN <<Len(d.nodes), Max({d.nodes[n].depth : n \in Ids(d)}),
         [i \in DOMAIN withSeeds |-> <<IF IsMinimalNode(d, withSeeds[i]) THEN 1 ELSE 0,
                                        d.nodes[withSeeds[i]].space, d.nodes[withSeeds[i]].seeds.v>>]>>
SummaryMatches(exp, got) ==
    /\ Len(got) = 3 /\ got[1] = exp[1] /\ got[2] = exp[2]
    /\ Len(got[3]) = Len(exp[3])
    /\ {<<got[3][i][1], got[3][i][2], SeqToSet(got[3][i][3])>> : i \in DOMAIN got[3]}
         = {<<exp[3][i][1], exp[3][i][2], SeqToSet(exp[3][i][3])>> : i \in DOMAIN exp[3]}
    /\ \A i \in DOMAIN got[3] : Len(got[3][i][3]) = Cardinality(SeqToSet(got[3][i][3]))
SubgraphSpec(a, b) ==
    \A n \in {x \in Ids(a) : a.nodes[x].expanded} :
        /\ \E m \in Ids(b) : b.nodes[m].space = a.nodes[n].space
        /\ \A c \in Succs(a, n) :
              \E m \in Ids(b) : \E k \in Succs(b, m) :
                  b.nodes[m].space = a.nodes[n].space /\ b.nodes[k].space = a.nodes[c].space
B2I(x) == IF x THEN 1 ELSE 0
CmpSpec(a, b) == <<B2I(SubgraphSpec(a, b)), B2I(SubgraphSpec(b, a)), B2I(SubgraphSpec(a, b) /\ SubgraphSpec(b, a))>>

Expected(d, e, got) ==
    CASE e.op = "new"     -> Res(NewDiagram(S), "ok")
      [] e.op = "exp"     -> Driver(d, ExpBegin(e.n), e)
      [] e.op = "bfs"     -> Driver(d, BfsBegin(e.n, e.lvl, e.size), e)
      [] e.op = "dfs"     -> Driver(d, DfsBegin(e.n, e.stk, e.size), e)
      [] e.op = "tgt"     -> Driver(d, TgtBegin(e.target, e.size), e)
      [] e.op = "min"     -> Driver(d, MinBegin(e.n, e.size, e.skip, e.mts), e)
      [] e.op = "aseeds"  -> Driver(d, ASeedsBegin(e.size, e.mts), e)
      [] e.op = "block" /\ e.fail_at = 0 /\ ~e.raised -> Driver(d, BlockBegin(e.maa, e.size, e.optsrc, e.exact), e)
      [] e.op = "scc" /\ e.fail_at = 0 /\ ~e.raised ->
             LET r == SccRun(S, tr.cfg.maxm, d, e.maa, OrcSeq(e.orc))
             IN [d |-> r.d, ret |-> r.ret, out |-> <<>>, xl |-> r.xl, unsound |-> r.unsound, adopt |-> FALSE]
      [] e.op = "skipmin" -> LET r == SkipToMinimal(S, d, e.n, e.mts, e.fail_at = 1) IN Res(r[1], r[2])
      [] e.op = "skiprem" -> IF e.fail_at = 1 THEN Res(d, "error")
                             ELSE LET r == SkipRemaining(S, d, e.mts) IN Res(r[1], ToString(r[2]))
      [] e.op = "cand"    -> CallRes(CandCall(d, e.n, PipeC(e, got)))
      [] e.op = "seeds"   -> CallRes(SeedsCall(S, d, e.n, PipeC(e, got), FbOf(e, got)))
      [] e.op = "sets"    -> CallRes(SetsCall(S, d, e.n, PipeC(e, got)))
      [] e.op = "reclaim" -> Res(Reclaim(d), "ok")
      [] e.op = "pickle"  -> Res(d, "ok")
      [] e.op = "noop"    -> Res(d, "ok")
      [] e.op = "api"     -> Res(d, "ok")
      [] e.op = "setcfg"  -> Res(d, "ok")
      [] e.op = "find"    -> Res(d, ToString(FindSpec(d, e.target)))
      [] e.op = "summary" -> [Res(d, "ok") EXCEPT !.out = SummarySpec(d)]
      [] e.op = "cmp"     -> [Res(d, "ok") EXCEPT !.out = CmpSpec(d, FromProj(e.other))]
      [] OTHER            -> [Res(got, e.ret) EXCEPT !.adopt = TRUE]     \* block / scc / build / allseeds / expseeds

\* the solver-order inputs must be permutations of the true minimal trap spaces of the start node
MtsOK(d, e) ==
    IF e.op \in {"min", "skipmin", "skiprem", "aseeds"} /\ (e.mts # <<>> \/ ~e.raised)
    THEN LET sp == IF e.op \in {"min", "skipmin"} THEN d.nodes[e.n].space ELSE d.nodes[1].space IN
         \/ (e.op = "skipmin" /\ d.nodes[e.n].expanded)
         \/ (e.mts = <<>> /\ e.raised)
         \/ (SeqToSet(e.mts) = MinTrapsIn(S, sp) /\ Len(e.mts) = Cardinality(MinTrapsIn(S, sp)))
    ELSE TRUE

(***************************************************************************)
(* C13: the recorded iterations of symbolic_attractor_test (hook events)   *)
(* are legal steps of the loop modelled in AttractorTest.tla and make      *)
(* progress; the work of a call (executed loop back-edges in the library)  *)
(* is bounded.                                                             *)
(***************************************************************************)
RECURSIVE VarClosure(_, _, _)
VarClosure(X, vs, back) ==
    LET nx == UNION {IF back THEN PreVar(S.nt, v, X) ELSE PostVar(S.nt, v, X) : v \in vs} IN
    IF nx \subseteq X THEN X ELSE VarClosure(X \cup nx, vs, back)
IterStepOK(a, b) ==
    LET ra == SeqToSet(a.reach) rb == SeqToSet(b.reach)
        aa == SeqToSet(a.avoid) ab == SeqToSet(b.avoid)
        sa == SeqToSet(a.sat)   sb == SeqToSet(b.sat)
    IN /\ ra \subseteq rb /\ aa \subseteq ab /\ sa \subseteq sb          \* the sets only grow
       /\ (a.force => b.force)
       /\ (ra # rb \/ aa # ab \/ sa # sb \/ (~a.force /\ b.force))      \* progress: something changed
\* mechanism-level (diagnostic): one variable per iteration, growth only along saturated variables
IterStepMech(a, b) ==
    LET sa == SeqToSet(a.sat) sb == SeqToSet(b.sat) IN
    /\ Cardinality(sb \ sa) <= 1
    /\ SeqToSet(b.reach) \subseteq VarClosure(SeqToSet(a.reach), sb, FALSE)
    /\ SeqToSet(b.avoid) \subseteq VarClosure(SeqToSet(a.avoid), sb, TRUE)
LoopOK(L) ==
    /\ L.result # "hang"
    /\ \A i \in 1..(Len(L.its) - 1) : IterStepOK(L.its[i], L.its[i + 1])
    /\ Len(L.its) <= 2 * P2[S.nt.n + 1] + 2 * S.nt.n + 4
LoopMechOK(L) ==
    LET R  == S.reach[L.pivot]
        A0 == SeqToSet(L.avoid0)
        fv == FreeV(L.space) IN
    /\ Len(L.its) >= 1 => /\ L.its[1].reach = <<L.pivot>> /\ SeqToSet(L.its[1].avoid) = A0 /\ L.its[1].sat = <<>>
                           /\ SeqToSet(L.its[1].conf) = {i \in fv : \E s \in A0 : Bit(s, i) # Bit(L.pivot, i)}
                           /\ SeqToSet(L.its[1].other) = fv \ SeqToSet(L.its[1].conf)
    /\ \A i \in 1..(Len(L.its) - 1) : IterStepMech(L.its[i], L.its[i + 1])
    /\ \A i \in DOMAIN L.its : SeqToSet(L.its[i].reach) \subseteq R
    /\ (L.result = "closure") => (SeqToSet(L.final) = R /\ R \cap A0 = {})
    /\ (L.result = "hit") => (R \cap A0 # {})
LoopsMechOK(e) == \A k \in DOMAIN e.loops : LoopMechOK(e.loops[k])
LoopsOK(e) == \A k \in DOMAIN e.loops : LoopOK(e.loops[k])
\* a generous function of the state space, the diagram size and the configured simulation budget
WorkOK(e) ==
    LET n == S.nt.n
        nodes == Len(e.post.nodes)
        per == 100 * P2[2 * n + 1] * (n + 1) + 16 * (1024 * P2[n + 1] + tr.cfg.simbudget * n) * (n + 1)
    IN e.work \div (nodes + 2) <= per

StripNode(nd) == [space |-> nd.space, expanded |-> nd.expanded, skipped |-> nd.skipped, how |-> nd.how]
IdFreeNodes(d) == {StripNode(d.nodes[n]) : n \in Ids(d)}
IdFreeEdges(d) == {<<d.nodes[e[1]].space, d.nodes[e[2]].space, SeqToSet(d.edges[e])>> : e \in DOMAIN d.edges}
CacheOf(d) == [n \in Ids(d) |-> <<d.nodes[n].cand, d.nodes[n].seeds, d.nodes[n].sets>>]
\* seeds / sets after a symbolic fallback are representatives chosen by the library: contract only
CacheMatches(x, got, e) ==
    IF e.op = "seeds" /\ e.fallback THEN TRUE ELSE CacheOf(x) = CacheOf(got)

AggSeedsOK(got, out) ==
    /\ \A n \in Ids(got) : got.nodes[n].expanded => got.nodes[n].seeds.k = 1
    /\ {<<out[i][1], out[i][2]>> : i \in DOMAIN out}
         = {<<n, got.nodes[n].seeds.v>> : n \in {m \in Ids(got) : got.nodes[m].expanded /\ got.nodes[m].seeds.v # <<>>}}
    /\ Len(out) = Cardinality({m \in Ids(got) : got.nodes[m].expanded /\ got.nodes[m].seeds.v # <<>>})

\* the read-only accessors (op "api"): root, len, depth, node / stub / expanded ids, minimal_trap_spaces, node_is_minimal,
\* node_successors, edge motifs (plain and reduced = without the variables fixed in the parent)
SeqOfSet(X) == SortAsc(X)
ReducedBy(m, sp) == [i \in DOMAIN m |-> IF sp[i] # 2 THEN 2 ELSE m[i]]
ApiOK(got, o) ==
    LET ids == Ids(got)
        mins == {n \in ids : got.nodes[n].expanded /\ Succs(got, n) = {}}
    IN /\ o[1] = 1
       /\ o[2] = Len(got.nodes)
       /\ o[3] = Max({got.nodes[n].depth : n \in ids} \cup {0})
       /\ o[4] = [i \in 1..Len(got.nodes) |-> i]
       /\ o[5] = SeqOfSet({n \in ids : ~got.nodes[n].expanded})
       /\ o[6] = SeqOfSet({n \in ids : got.nodes[n].expanded})
       /\ o[7] = SeqOfSet(mins)
       /\ o[8] = SeqOfSet(mins)
       /\ {<<o[9][i][1], SeqToSet(o[9][i][2])>> : i \in DOMAIN o[9]} = {<<n, Succs(got, n)>> : n \in {m \in ids : got.nodes[m].expanded}}
       /\ \A i \in DOMAIN o[9] : Len(o[9][i][2]) = Cardinality(SeqToSet(o[9][i][2]))
       /\ {<<o[10][i][1], o[10][i][2]>> : i \in DOMAIN o[10]} = DOMAIN got.edges
       /\ Len(o[10]) = Cardinality(DOMAIN got.edges)
       /\ \A i \in DOMAIN o[10] :
             LET ed == o[10][i]
                 ms == got.edges[<<ed[1], ed[2]>>]
                 sp == got.nodes[ed[1]].space
             IN /\ ed[3] = ms[1]
                /\ ed[4] = ReducedBy(ms[1], sp)
                /\ ed[5] = ms
                /\ ed[6] = [k \in DOMAIN ms |-> ReducedBy(ms[k], sp)]

Mismatch(x, got, e) ==
    (IF x.adopt \/ e.exc = "Hang" THEN {} ELSE
       (IF IdFreeNodes(x.d) = IdFreeNodes(got) /\ IdFreeEdges(x.d) = IdFreeEdges(got) THEN {} ELSE {"STRUCT"})
       \cup (IF [n \in Ids(x.d) |-> StripNode(x.d.nodes[n])] = [n \in Ids(got) |-> StripNode(got.nodes[n])]
                /\ x.d.edges = got.edges THEN {} ELSE {"IDS"})
       \cup (IF Len(x.d.nodes) = Len(got.nodes)
                /\ \A n \in Ids(got) : n \in Ids(x.d) /\ x.d.nodes[n].depth = got.nodes[n].depth THEN {} ELSE {"DEPTH"})
       \cup (IF x.d.idx = got.idx THEN {} ELSE {"IDX"})
       \cup (IF Len(x.d.nodes) = Len(got.nodes) /\ CacheMatches(x.d, got, e) THEN {} ELSE {"CACHE"})
       \cup (IF x.ret = e.ret /\ (e.raised <=> x.ret = "error") THEN {} ELSE {"RET"})
       \cup (IF e.op \in {"cand", "seeds", "sets"} /\ ~e.raised /\ ~(e.op = "seeds" /\ e.fallback) /\ x.out # e.out
             THEN {"OUT"} ELSE {})
       \cup (IF e.op \in {"find", "cmp"} /\ (e.raised \/ x.out # e.out \/ x.ret # e.ret) THEN {"QUERY"} ELSE {})
       \* summary(): node count, depth, and one entry per node with known seeds (label, space, its seeds), in any order
       \cup (IF e.op = "summary" /\ (e.raised \/ ~SummaryMatches(x.out, e.out)) THEN {"QUERY"} ELSE {})
       \cup (IF x.xl = e.xl THEN {} ELSE {"XL"})
       \cup (IF x.unsound THEN {"ORACLE"} ELSE {}))
    \* expanded_attractor_seeds(): exactly the expanded nodes with a non-empty seed list, each with the list the node reports
    \cup (IF e.op = "expseeds" /\ ~e.raised /\ ~AggSeedsOK(got, e.out) THEN {"QUERY"} ELSE {})
    \cup (IF e.op = "api" /\ (e.raised \/ ~ApiOK(got, e.out)) THEN {"QUERY"} ELSE {})
    \cup (IF e.exc = "Hang" THEN {"HANG"} ELSE {})
    \cup (IF LoopsOK(e) THEN {} ELSE {"LOOP"})
    \cup (IF LoopsMechOK(e) THEN {} ELSE {"LOOPMECH"})
    \cup (IF WorkOK(e) THEN {} ELSE {"WORK"})

PlainOp(e) == e.op \in {"new", "exp", "bfs", "dfs", "tgt", "aseeds", "cand", "seeds", "sets", "reclaim", "pickle",
                         "control", "allseeds", "allsets", "expseeds", "noop", "setcfg", "find", "summary", "cmp", "api"}
              \/ (e.op = "min" /\ ~e.skip) \/ (e.op = "block" /\ ~e.optsrc)

\* C01: the six complete strategies with default settings, started on a fresh diagram
CompleteStrategy(e) ==
    \/ (e.op = "build" /\ ~e.raised)
    \/ (e.op = "block" /\ e.ret = "true" /\ e.maa /\ e.optsrc /\ ~e.exact /\ e.size = Unl)
    \/ (e.op = "scc" /\ e.ret = "true" /\ e.maa)
    \/ (e.op = "bfs" /\ e.ret = "true" /\ e.n = 1 /\ e.lvl = Unl)
    \/ (e.op = "dfs" /\ e.ret = "true" /\ e.n = 1 /\ e.stk = Unl)
    \/ (e.op = "aseeds" /\ e.ret = "true")
NextMode(m, e) ==
    IF e.op = "new" THEN "fresh"
    ELSE IF m = "fresh" /\ CompleteStrategy(e) THEN "complete"
    ELSE IF m = "complete" /\ e.op \in {"expseeds", "allseeds", "allsets", "seeds", "cand", "sets", "reclaim", "pickle", "find", "summary", "cmp", "noop", "api"} /\ ~e.raised THEN "complete"
    ELSE "other"

InitEv == [op |-> "init"]

Init == /\ \E i \in DOMAIN Traces : tr = Traces[i]
        /\ S = IF "srcs" \in DOMAIN tr THEN SemOfSrcs(tr.net, SeqToSet(tr.srcs) \cap Sources(tr.net)) ELSE SemOf(tr.net)
        /\ l = 1
        /\ D = EmptyDiagram
        /\ pre = EmptyDiagram
        /\ ev = InitEv
        /\ bad = {}
        /\ plain = TRUE
        /\ mode = "fresh"

Next == /\ l <= Len(tr.events)
        /\ LET e   == tr.events[l]
               got == FromProj(e.post)
               \* (a logged state with a cycle - reported by Inv_WF - is taken over as it is: the step functions would not terminate on it)
               x   == IF EdgesWF(D) /\ EdgesDescend(D) THEN Expected(D, e, got) ELSE [Res(got, e.ret) EXCEPT !.adopt = TRUE]
           IN /\ bad' = (IF ProjWF(e.post) THEN {} ELSE {"PROJ"})
                          \cup (IF MtsOK(D, e) THEN {} ELSE {"MTS"})
                          \cup Mismatch(x, got, e)
              /\ D' = got
              /\ pre' = D
              /\ ev' = e
              /\ plain' = (plain /\ PlainOp(e))
              /\ mode' = NextMode(mode, e)
        /\ l' = l + 1
        /\ UNCHANGED <<tr, S>>

Spec == Init /\ [][Next]_vars

(***************************************************************************)
(* Reporting: one line per violated (invariant, trace, event).             *)
(***************************************************************************)
Report(name, ok) == ok \/ (PrintT(<<"VIOL", name, tr.tid, l - 1, ev.op>>) /\ FALSE)
Started == ev.op # "init"

\* conformance clauses
\* Verdict clauses (implied by a property) are real invariants.  The conformance clauses below compare the
\* implementation with the MECHANISM of the model (ids, expansion order, return values, cached lists ...);
\* a legitimate refactoring may change those without breaking any property, so they are reported as
\* model deviations (DEV lines, diagnostics) and never fail.
Dev(name, ok) == ok \/ PrintT(<<"DEV", name, tr.tid, l - 1, ev.op>>)
Inv_PROJ   == Report("PROJ",   "PROJ" \notin bad)
Inv_QUERY  == Report("QUERY",  "QUERY" \notin bad)
Dev_MTS    == Dev("MTS",    "MTS" \notin bad)
Dev_STRUCT == Dev("STRUCT", "STRUCT" \notin bad)
Dev_IDS    == Dev("IDS",    "IDS" \notin bad)
Dev_DEPTH  == Dev("DEPTH",  "DEPTH" \notin bad)
Dev_IDX    == Dev("IDX",    "IDX" \notin bad)
Dev_CACHE  == Dev("CACHE",  "CACHE" \notin bad)
Dev_RET    == Dev("RET",    "RET" \notin bad)
Dev_OUT    == Dev("OUT",    "OUT" \notin bad)
Dev_XL     == Dev("XL",     "XL" \notin bad)
Dev_ORACLE == Dev("ORACLE", "ORACLE" \notin bad)
Dev_LOOPMECH == Dev("LOOPMECH", "LOOPMECH" \notin bad)
Inv_HANG   == Report("HANG",   "HANG" \notin bad)
Inv_LOOP   == Report("LOOP",   "LOOP" \notin bad)
Inv_WORK   == Report("WORK",   "WORK" \notin bad)

\* state invariants on every logged state
Inv_WF == Report("WF", Started => RootOK(S, D) /\ EdgesWF(D) /\ EdgesDescend(D) /\ NodesArePercolatedTraps(S, D))
Inv_IndexExact == Report("IndexExact", Started => IndexExact(D))
Inv_PartialFaithful == Report("PartialFaithful", Started => PartialFaithfulS(S, D, plain))
Inv_PlainOnly == Report("PlainOnly", (Started /\ plain) => \A n \in Ids(D) : D.nodes[n].how # "other" /\ ~D.nodes[n].skipped)
Inv_DepthExact == Report("DepthExact", Started => DepthExact(D) /\ ev.post.depth = Max({D.nodes[n].depth : n \in Ids(D)}))
Inv_CacheFresh == Report("CacheFresh", Started => CacheFresh(S, D))
Inv_CacheDiscard == Report("CacheDiscard", Started => CacheDiscarded(pre, D))
Inv_Covers == Report("Covers", Started => \A n \in Ids(D) : D.nodes[n].cand.k = 1 => Covers(S, D, n, D.nodes[n].cand.v))
Inv_SetsFresh == Report("SetsFresh", Started => \A n \in Ids(D) :
    /\ (D.nodes[n].sets.k = 1 /\ D.nodes[n].seeds.k = 1) => SetsExactFor(S, D.nodes[n].seeds.v, D.nodes[n].sets.v)
    /\ (D.nodes[n].sets.k = 1 /\ D.nodes[n].seeds.k = 0) => \A i \in DOMAIN D.nodes[n].sets.v : SeqToSet(D.nodes[n].sets.v[i]) \in S.attr)

Completed(ops) == Started /\ ev.op \in ops /\ ev.ret = "true"
FromRoot == ev.op \in {"aseeds", "block", "scc"} \/ ev.n = 1
Unlimited == (ev.op = "bfs" => ev.lvl = Unl) /\ (ev.op = "dfs" => ev.stk = Unl)
\* C02
Inv_FullExact == Report("FullExact",
    (plain /\ Completed({"bfs", "dfs"}) /\ FromRoot /\ Unlimited) => FullExact(S, D))
\* C03
\* (block / source-SCC / build: from a fresh diagram only, as the statement says; an already expanded root makes
\* expand_block return True at once)
FreshPre == Len(pre.nodes) = 1 /\ ~pre.nodes[1].expanded
Inv_MinExact == Report("MinExact",
    \* (a level- or stack-limited call that returns True claims completion like an unlimited one)
    ((Completed({"bfs", "dfs", "min", "aseeds"}) /\ FromRoot)
       \/ (Completed({"block", "scc"}) /\ FreshPre)
       \/ (Started /\ ev.op = "skiprem" /\ ~ev.raised) \/ (Started /\ ev.op = "build" /\ ~ev.raised /\ FreshPre))
    => MinExact(S, D))
\* C15
Inv_RetFalse == Report("RetFalse",
    (Started /\ ev.op \in {"bfs", "dfs", "min", "aseeds", "tgt", "block"} /\ ev.ret = "false" /\ Unlimited)
    => \E n \in Ids(D) : ~D.nodes[n].expanded)
\* C15: "an expansion that returns True has really completed its contract": after BFS / DFS from node n returned True,
\* every node reachable from n is expanded (whatever limits were given)
RECURSIVE ReachNodes(_, _, _)
ReachNodes(d, fr, seen) == IF fr = {} THEN seen
                           ELSE LET nx == (UNION {Succs(d, x) : x \in fr}) \ seen IN ReachNodes(d, nx, seen \cup nx)
Inv_TrueMeansClosed == Report("TrueMeansClosed",
    (Started /\ ev.op \in {"bfs", "dfs"} /\ ev.ret = "true")
    => \A x \in ReachNodes(D, {ev.n}, {ev.n}) : D.nodes[x].expanded)
\* C01 / C05: all seeds known on a completely expanded diagram
AllExpanded == \A n \in Ids(D) : D.nodes[n].expanded
ExpandedIds == {n \in Ids(D) : D.nodes[n].expanded}
NoSkip == \A n \in Ids(D) : ~D.nodes[n].skipped
Inv_SeedsAll == Report("SeedsAll",
    (Started /\ AllExpanded /\ AllSeedsKnown(D, Ids(D)))
    => /\ AtLeastOnce(S, D, Ids(D))
       /\ (NoSkip \/ NoMAA(S)) => SeedBijection(S, D, Ids(D)))

\* C20, last clause: after build() on a fresh diagram the summary lists every attractor exactly once, labelled as lying in a
\* minimal trap space or as motif-avoidant according to the node that contains it (ev.out = <<nodes, depth, entries>>,
\* entries[i] = <<label, space, seeds>>)
SummaryOnce(o) ==
    LET en == o[3]
        hits(A) == {<<i, k>> \in UNION {{<<j, m>> : m \in DOMAIN en[j][3]} : j \in DOMAIN en} :
                       IsState(en[i][3][k]) /\ StateOf(en[i][3][k]) \in A}
    IN /\ \A A \in S.attr : Cardinality(hits(A)) = 1
       /\ \A i \in DOMAIN en : (en[i][1] = 1) <=> (en[i][2] \in S.mint)
Inv_SummaryOnce == Report("SummaryOnce",
    (Started /\ ev.op = "summary" /\ ~ev.raised /\ mode = "complete" /\ Len(tr.events) >= 2 /\ tr.events[2].op = "build")
    => SummaryOnce(ev.out))

\* C01: after a complete default strategy on a fresh diagram, the seeds of the expanded nodes
\* are in bijection with the attractors
Inv_C01 == Report("C01",
    (Started /\ mode = "complete" /\ AllSeedsKnown(D, ExpandedIds))
    => /\ SeedBijection(S, D, ExpandedIds)
       /\ \A n \in ExpandedIds : SeedsExactFor(S, D, n, D.nodes[n].seeds.v))

Done == l > Len(tr.events)
Accepted == Done => PrintT(<<"DONE", tr.tid, Len(tr.events)>>)
=============================================================================
