--------------------------------- MODULE SD ---------------------------------
(***************************************************************************)
(* The succession-diagram state machine of biobalm, written functionally:  *)
(* every critical section of the implementation is an operator from        *)
(* (diagram, frame) to (diagram, frame).  The model checker takes one      *)
(* micro-step per transition (MC_SD.tla); the trace validator runs a call  *)
(* to completion (SDTrace.tla).  Both use exactly these operators.         *)
(*                                                                         *)
(* Node ids are 1-based here (id_spec = id_code + 1); parent 0 = None.     *)
(* Limits: Unl (-1) stands for Python's None.                              *)
(*                                                                         *)
(* S is the semantic table of the network (BoolNet!SemOf).                 *)
(***************************************************************************)
EXTENDS BoolNet, Integers, SequencesExt, FiniteSetsExt

Unl == -1

Unknown   == [k |-> 0, v |-> <<>>]
Known(x)  == [k |-> 1, v |-> x]

\* how: "none" (not expanded), "plain" (_expand_one_node), "other" (skip / shortcut / attach / minimal-by-skip)
NewNode(sp) == [space |-> sp, expanded |-> FALSE, skipped |-> FALSE, depth |-> 0, how |-> "none",
                cand |-> Unknown, seeds |-> Unknown, sets |-> Unknown]

EmptyDiagram == [nodes |-> <<>>, edges |-> <<>>, idx |-> <<>>]

Succs(D, n) == {e[2] : e \in {x \in DOMAIN D.edges : x[1] = n}}
Preds(D, n) == {e[1] : e \in {x \in DOMAIN D.edges : x[2] = n}}
Ids(D)      == DOMAIN D.nodes
SortAsc(X)  == SetToSortSeq(X, LAMBDA a, b : a < b)
SortDesc(X) == SetToSortSeq(X, LAMBDA a, b : a > b)
IsMinimalNode(D, n) == D.nodes[n].expanded /\ Succs(D, n) = {}
SeqToSet(q) == {q[i] : i \in DOMAIN q}

(***************************************************************************)
(* _update_node_depth / _ensure_edge / _ensure_node                        *)
(* (depth propagation to descendants: behaviour after the C20 fix)         *)
(***************************************************************************)
RECURSIVE RelaxDepth(_, _)
RelaxDepth(nodes, edges) ==
    LET bad == {e \in DOMAIN edges : nodes[e[2]].depth < nodes[e[1]].depth + 1} IN
    IF bad = {} THEN nodes
    ELSE LET e == CHOOSE x \in bad : TRUE
         IN RelaxDepth([nodes EXCEPT ![e[2]].depth = nodes[e[1]].depth + 1], edges)

EnsureEdge(D, p, c, m) ==
    LET es == IF <<p, c>> \in DOMAIN D.edges
              THEN [D.edges EXCEPT ![<<p, c>>] = Append(@, m)]
              ELSE D.edges @@ (<<p, c>> :> <<m>>)
        d  == IF D.nodes[c].depth > D.nodes[p].depth + 1 THEN D.nodes[c].depth ELSE D.nodes[p].depth + 1
        raised == d > D.nodes[c].depth
        ns == [D.nodes EXCEPT ![c].depth = d]
    IN [D EXCEPT !.edges = es, !.nodes = IF raised THEN RelaxDepth(ns, es) ELSE ns]

EnsureNode(S, D, parent, m) ==
    LET fx    == Perc(S.nt, m)
        known == fx \in DOMAIN D.idx
        id    == IF known THEN D.idx[fx] ELSE Len(D.nodes) + 1
        D1    == IF known THEN D
                 ELSE [D EXCEPT !.nodes = Append(@, NewNode(fx)), !.idx = @ @@ (fx :> id)]
    IN [d |-> IF parent = 0 THEN D1 ELSE EnsureEdge(D1, parent, id, m), id |-> id]

RECURSIVE EnsureAll(_, _, _, _)
EnsureAll(S, D, parent, ms) ==
    IF ms = <<>> THEN D ELSE EnsureAll(S, EnsureNode(S, D, parent, Head(ms)).d, parent, Tail(ms))

NewDiagram(S) == EnsureNode(S, EmptyDiagram, 0, AllFree(S.nt)).d

ClearAttr(D, n) == [D EXCEPT !.nodes[n].cand = Unknown, !.nodes[n].seeds = Unknown, !.nodes[n].sets = Unknown]
MarkExpanded(D, n, how) == [D EXCEPT !.nodes[n].expanded = TRUE, !.nodes[n].how = how]

(***************************************************************************)
(* _expand_one_node.  Result: [d, err, did].                               *)
(***************************************************************************)
MotifsOf(S, sp, isroot) ==
    IF sp \in S.diag /\ (isroot <=> sp = S.root) THEN S.ms[sp]
    ELSE KeySort(MaxIn(S.traps, sp, IF isroot THEN S.srcs ELSE {}))

\* a solver call with solution_limit L on a problem with `count` solutions raises the
\* "limit exceeded" error of its caller iff the truncated list has exactly L entries
LimitHit(count, L) == count >= L

\* does expanding n call the trap-space solver?
NeedsSolver(D, n) == ~D.nodes[n].expanded /\ ~IsState(D.nodes[n].space)
\* `fail`: the solver call of this expansion raises (fault injection)
ExpandOneF(S, D, n, maxm, fail) ==
    IF D.nodes[n].expanded THEN [d |-> D, err |-> FALSE, did |-> FALSE]
    ELSE LET D1 == ClearAttr(D, n)
             sp == D.nodes[n].space
         IN IF IsState(sp) THEN [d |-> MarkExpanded(D1, n, "plain"), err |-> FALSE, did |-> TRUE]
            ELSE LET ms == MotifsOf(S, sp, n = 1) IN
                 IF fail \/ LimitHit(Len(ms), maxm) THEN [d |-> D1, err |-> TRUE, did |-> FALSE]
                 ELSE [d |-> MarkExpanded(EnsureAll(S, D1, n, ms), n, "plain"), err |-> FALSE, did |-> TRUE]

\* expansion inside a driver: counts solver calls in the frame (fr.sc) and fails the call
\* number cfg.failat (0 = no injected fault).  Result: [d, err, did, fr]
DoExpand(S, cfg, D, fr, n) ==
    LET ns == NeedsSolver(D, n)
        x  == ExpandOneF(S, D, n, cfg.maxm, ns /\ cfg.failat = fr.sc + 1)
    IN [d |-> x.d, err |-> x.err, did |-> x.did, fr |-> IF ns THEN [fr EXCEPT !.sc = @ + 1] ELSE fr]
ExpandOne(S, D, n, maxm) == ExpandOneF(S, D, n, maxm, FALSE)

(***************************************************************************)
(* Frames of the drivers.  Every frame has: op, done, ret, err, xl         *)
(* (xl: ids passed to a real expansion, in order).                         *)
(***************************************************************************)
Idle == [op |-> "idle", done |-> TRUE, ret |-> "none", err |-> FALSE, xl |-> <<>>, sc |-> 0]

Finish(fr, r) == [fr EXCEPT !.done = TRUE, !.ret = r]
Fail(fr)      == [fr EXCEPT !.done = TRUE, !.ret = "error", !.err = TRUE]
Logged(fr, x, n) == IF x.did THEN [x.fr EXCEPT !.xl = Append(@, n)] ELSE x.fr
\* a size limit stops a driver only at a node that still has to be expanded (behaviour after the C15 fix)
SizeStop(D, lim, n) == lim # Unl /\ Len(D.nodes) >= lim /\ ~D.nodes[n].expanded

RECURSIVE AppendUnseen(_, _, _)
AppendUnseen(q, seen, nxt) ==   \* for s in q: if s not in seen: seen.add(s); nxt.append(s)
    IF q = <<>> THEN <<seen, nxt>>
    ELSE IF Head(q) \in seen THEN AppendUnseen(Tail(q), seen, nxt)
    ELSE AppendUnseen(Tail(q), seen \cup {Head(q)}, Append(nxt, Head(q)))

---------------------------------------------------------------------------
\* node_successors(n, compute = TRUE) as a one-step driver
ExpBegin(n) == [op |-> "exp", done |-> FALSE, ret |-> "none", err |-> FALSE, xl |-> <<>>, sc |-> 0, n |-> n]
ExpStep(S, cfg, D, fr) ==
    LET x == DoExpand(S, cfg, D, fr, fr.n)
    IN <<x.d, IF x.err THEN Fail(x.fr) ELSE Finish(Logged(fr, x, fr.n), "ok")>>

---------------------------------------------------------------------------
\* expand_bfs
BfsBegin(n, lvl, size) ==
    [op |-> "bfs", done |-> FALSE, ret |-> "none", err |-> FALSE, xl |-> <<>>, sc |-> 0, start |-> n,
     cur |-> <<n>>, nxt |-> <<>>, seen |-> {n}, i |-> 1, lvl |-> 0, limlvl |-> lvl, limsize |-> size]
BfsStep(S, cfg, D, fr) ==
    IF fr.i <= Len(fr.cur) THEN
        LET node == fr.cur[fr.i] IN
        IF SizeStop(D, fr.limsize, node) THEN <<D, Finish(fr, "false")>>
        ELSE LET x == DoExpand(S, cfg, D, fr, node) IN
             IF x.err THEN <<x.d, Fail(x.fr)>>
             ELSE LET r == AppendUnseen(SortAsc(Succs(x.d, node)), fr.seen, fr.nxt)
                  IN <<x.d, [Logged(fr, x, node) EXCEPT !.seen = r[1], !.nxt = r[2], !.i = @ + 1]>>
    ELSE IF fr.limlvl # Unl /\ fr.lvl >= fr.limlvl THEN <<D, Finish(fr, "false")>>
    ELSE IF fr.nxt = <<>> THEN <<D, Finish(fr, "true")>>
    ELSE <<D, [fr EXCEPT !.lvl = @ + 1, !.cur = fr.nxt, !.nxt = <<>>, !.i = 1]>>

---------------------------------------------------------------------------
\* expand_dfs.  Stack entries: [n, s, has] (has = FALSE: successors not computed yet; s is kept
\* in the order of the python list, which is popped from the back)
DfsBegin(n, stk, size) ==
    [op |-> "dfs", done |-> FALSE, ret |-> "none", err |-> FALSE, xl |-> <<>>, sc |-> 0, start |-> n,
     stack |-> <<[n |-> n, s |-> <<>>, has |-> FALSE]>>, seen |-> {n}, complete |-> TRUE,
     limstk |-> stk, limsize |-> size]
RECURSIVE DropSeenBack(_, _)
DropSeenBack(q, seen) == IF q # <<>> /\ Last(q) \in seen THEN DropSeenBack(Front(q), seen) ELSE q
DfsStep(S, cfg, D, fr) ==
    IF fr.stack = <<>> THEN <<D, Finish(fr, IF fr.complete THEN "true" ELSE "false")>>
    ELSE LET top  == Last(fr.stack)
             rest == Front(fr.stack) IN
         IF ~top.has /\ SizeStop(D, fr.limsize, top.n) THEN <<D, Finish(fr, "false")>>
         ELSE LET x  == IF top.has THEN [d |-> D, err |-> FALSE, did |-> FALSE, fr |-> fr]
                        ELSE DoExpand(S, cfg, D, fr, top.n) IN
              IF x.err THEN <<x.d, Fail(x.fr)>>
              ELSE LET s0 == IF top.has THEN top.s ELSE SortDesc(Succs(x.d, top.n))
                       s1 == DropSeenBack(s0, fr.seen)
                       f1 == [Logged(fr, x, top.n) EXCEPT !.stack = rest]
                   IN IF s1 = <<>> THEN <<x.d, f1>>
                      ELSE IF fr.limstk # Unl /\ Len(rest) >= fr.limstk
                           THEN <<x.d, [f1 EXCEPT !.complete = FALSE]>>
                      ELSE LET s == Last(s1) IN
                           <<x.d, [f1 EXCEPT !.seen = @ \cup {s},
                                             !.stack = rest \o <<[n |-> top.n, s |-> Front(s1), has |-> TRUE],
                                                                 [n |-> s, s |-> <<>>, has |-> FALSE]>>]>>

---------------------------------------------------------------------------
\* expand_to_target: BFS from the root expanding only nodes that meet the target and are not
\* strictly inside it
TgtBegin(target, size) ==
    [op |-> "tgt", done |-> FALSE, ret |-> "none", err |-> FALSE, xl |-> <<>>, sc |-> 0,
     cur |-> <<1>>, nxt |-> <<>>, seen |-> {1}, i |-> 1, target |-> target, limsize |-> size]
TgtStep(S, cfg, D, fr) ==
    IF fr.i <= Len(fr.cur) THEN
        LET node == fr.cur[fr.i]
            sp   == D.nodes[node].space IN
        IF ~Consistent(sp, fr.target) \/ (Sub(sp, fr.target) /\ sp # fr.target)
        THEN <<D, [fr EXCEPT !.i = @ + 1]>>
        ELSE IF SizeStop(D, fr.limsize, node) THEN <<D, Finish(fr, "false")>>
        ELSE LET x == DoExpand(S, cfg, D, fr, node) IN
             IF x.err THEN <<x.d, Fail(x.fr)>>
             ELSE LET r == AppendUnseen(SortAsc(Succs(x.d, node)), fr.seen, fr.nxt)
                  IN <<x.d, [Logged(fr, x, node) EXCEPT !.seen = r[1], !.nxt = r[2], !.i = @ + 1]>>
    ELSE IF fr.nxt = <<>> THEN <<D, Finish(fr, "true")>>
    ELSE <<D, [fr EXCEPT !.cur = fr.nxt, !.nxt = <<>>, !.i = 1]>>

---------------------------------------------------------------------------
\* skip machinery.  mts: the minimal trap spaces in the order the solver returned them
MinTrapsIn(S, sp) == {t \in S.mint : Sub(t, sp)}

\* for m in mts: id = _ensure_node(parent, m); nodes[id].expanded = True
RECURSIVE EnsureExpandedAll(_, _, _, _)
EnsureExpandedAll(S, D, parent, mts) ==
    IF mts = <<>> THEN D
    ELSE LET r  == EnsureNode(S, D, parent, Head(mts))
             D1 == IF r.d.nodes[r.id].expanded THEN r.d ELSE MarkExpanded(r.d, r.id, "other")
         IN EnsureExpandedAll(S, D1, parent, Tail(mts))

\* nodes marked expanded outside _expand_one_node drop whatever attractor data was computed
\* while they had no successors (behaviour after the C14 fix)
MarkSkipped(D, n) == [ClearAttr(MarkExpanded(D, n, "other"), n) EXCEPT !.nodes[n].skipped = TRUE]

\* skip_to_minimal(n): returns "false" if expanded
SkipToMinimal(S, D, n, mts, fail) ==
    IF D.nodes[n].expanded THEN <<D, "false">>
    ELSE IF fail THEN <<D, "error">>
    ELSE IF Len(mts) = 1 /\ mts[1] = D.nodes[n].space
         THEN <<MarkExpanded(D, n, "other"), "true">>     \* no successors before or after: caches stay valid
    ELSE <<MarkSkipped(EnsureExpandedAll(S, D, n, mts), n), "true">>

\* make_skip_node(n) of expand_minimal_spaces: all minimal traps of the start node, filtered
MakeSkipNode(S, D, n, allmts) ==
    IF D.nodes[n].expanded THEN D
    ELSE MarkSkipped(EnsureExpandedAll(S, D, n, SelectSeq(allmts, LAMBDA m : Sub(m, D.nodes[n].space))), n)

\* skip_remaining(): returns the number of skipped nodes
RECURSIVE SkipEdges(_, _, _, _)
SkipEdges(D, n, pairs, k) ==   \* pairs: seq of <<id, trap>>
    IF k > Len(pairs) THEN D
    ELSE SkipEdges(IF Sub(pairs[k][2], D.nodes[n].space) THEN EnsureEdge(D, n, pairs[k][1], pairs[k][2]) ELSE D,
                   n, pairs, k + 1)
RECURSIVE SkipLoop(_, _, _, _)
SkipLoop(D, pairs, n, cnt) ==
    IF n > Len(D.nodes) THEN <<D, cnt>>
    ELSE IF D.nodes[n].expanded THEN SkipLoop(D, pairs, n + 1, cnt)
    ELSE SkipLoop(MarkSkipped(SkipEdges(D, n, pairs, 1), n), pairs, n + 1, cnt + 1)
RECURSIVE RootTraps(_, _, _, _)
RootTraps(S, D, mts, acc) ==
    IF mts = <<>> THEN <<D, acc>>
    ELSE LET r  == EnsureNode(S, D, 0, Head(mts))
             D1 == IF r.d.nodes[r.id].expanded THEN r.d ELSE MarkExpanded(r.d, r.id, "other")
         IN RootTraps(S, D1, Tail(mts), Append(acc, <<r.id, Head(mts)>>))
SkipRemaining(S, D, mts) ==
    LET r == RootTraps(S, D, mts, <<>>) IN SkipLoop(r[1], r[2], 1, 0)

---------------------------------------------------------------------------
\* expand_minimal_spaces(node, size_limit, skip_ignored).  amts: all minimal traps of the start
\* node in solver order; rem: those not yet seen as an expanded minimal node
MinBegin(n, size, skip, amts) ==
    [op |-> "min", done |-> FALSE, ret |-> "none", err |-> FALSE, xl |-> <<>>, sc |-> 0, start |-> n,
     stack |-> <<[n |-> n, s |-> <<>>, has |-> FALSE]>>, seen |-> {n}, amts |-> amts,
     rem |-> SeqToSet(amts), limsize |-> size, skip |-> skip, started |-> FALSE]
\* the inner while loop over `successors` (from the back)
RECURSIVE MinFilter(_, _, _, _, _, _)
MinFilter(S, D, q, seen, covers, fr) ==
    IF q = <<>> THEN <<D, q>>
    ELSE IF Last(q) \in seen THEN MinFilter(S, D, Front(q), seen, covers, fr)
    ELSE IF ~covers THEN MinFilter(S, IF fr.skip THEN MakeSkipNode(S, D, Last(q), fr.amts) ELSE D,
                                   Front(q), seen, covers, fr)
    ELSE <<D, q>>
MinStep(S, cfg, D, fr) ==
    IF ~fr.started THEN      \* the initial trappist("min") call
        IF cfg.failat = fr.sc + 1 THEN <<D, Fail([fr EXCEPT !.sc = @ + 1])>>
        ELSE <<D, [fr EXCEPT !.sc = @ + 1, !.started = TRUE]>>
    ELSE IF fr.stack = <<>> THEN
        IF fr.rem = {} THEN <<D, Finish(fr, "true")>> ELSE <<D, Fail(fr)>>   \* assert len(minimal_traps) == 0
    ELSE LET top  == Last(fr.stack)
             rest == Front(fr.stack) IN
         IF ~top.has /\ SizeStop(D, fr.limsize, top.n) THEN <<D, Finish(fr, "false")>>
         ELSE LET x == IF top.has THEN [d |-> D, err |-> FALSE, did |-> FALSE, fr |-> fr]
                       ELSE DoExpand(S, cfg, D, fr, top.n) IN
              IF x.err THEN <<x.d, Fail(x.fr)>>
              ELSE LET s0  == IF top.has THEN top.s ELSE SortDesc(Succs(x.d, top.n))
                       sp  == x.d.nodes[top.n].space
                       cov == \E t \in fr.rem : Sub(t, sp)
                       r   == MinFilter(S, x.d, s0, fr.seen, cov, fr)
                       D1  == r[1]
                       s1  == r[2]
                       f1  == [Logged(fr, x, top.n) EXCEPT !.stack = rest]
                   IN IF s1 = <<>> THEN
                          IF IsMinimalNode(D1, top.n) THEN
                              IF sp \in fr.rem THEN <<D1, [f1 EXCEPT !.rem = @ \ {sp}]>>
                              ELSE <<D1, Fail(f1)>>          \* list.remove raises ValueError
                          ELSE <<D1, f1>>
                      ELSE LET s == Last(s1) IN
                           <<D1, [f1 EXCEPT !.seen = @ \cup {s},
                                            !.stack = rest \o <<[n |-> top.n, s |-> Front(s1), has |-> TRUE],
                                                                [n |-> s, s |-> <<>>, has |-> FALSE]>>]>>

---------------------------------------------------------------------------
(***************************************************************************)
(* Attractor layer (contract level).  Own attractors of a node are those   *)
(* inside its space and inside none of the avoided spaces: the child       *)
(* motifs and, for skip nodes, the intersections with nodes known to be    *)
(* empty (exactly the rule of compute_attractor_candidates).               *)
(***************************************************************************)
ChildMotifs(D, n) == {D.edges[<<n, c>>][1] : c \in Succs(D, n)}
EmptyKnown(nd) == (nd.cand.k = 1 /\ nd.cand.v = <<>>) \/ (nd.seeds.k = 1 /\ nd.seeds.v = <<>>)
SkipAvoid(D, n) ==
    LET sp == D.nodes[n].space IN
    {Meet(sp, D.nodes[m].space) : m \in {x \in Ids(D) : /\ ~Sub(sp, D.nodes[x].space)
                                                          /\ EmptyKnown(D.nodes[x])
                                                          /\ Consistent(sp, D.nodes[x].space)}}
AvoidOf(D, n) == (IF D.nodes[n].expanded THEN ChildMotifs(D, n) ELSE {})
                 \cup (IF D.nodes[n].skipped THEN SkipAvoid(D, n) ELSE {})
InSome(A, avoid) == \E a \in avoid : \A s \in A : In(s, a)
OwnAttr(S, D, n) ==
    LET sp == D.nodes[n].space av == AvoidOf(D, n)
    IN {A \in S.attr : (\A s \in A : In(s, sp)) /\ ~InSome(A, av)}
AttrOfState(S, s) == IF \E A \in S.attr : s \in A THEN {CHOOSE A \in S.attr : s \in A} ELSE {}

PseudoMinimal(D, n) == ~D.nodes[n].expanded \/ IsMinimalNode(D, n)

\* C covers the own attractors of n
Covers(S, D, n, C) ==
    /\ \A i \in DOMAIN C : IsState(C[i]) /\ Sub(C[i], D.nodes[n].space)
    /\ \A A \in OwnAttr(S, D, n) : \E i \in DOMAIN C : StateOf(C[i]) \in A
\* seeds are exact: one per own attractor, each inside one
SeedsExactFor(S, D, n, Q) ==
    /\ \A i \in DOMAIN Q : IsState(Q[i]) /\ \E A \in OwnAttr(S, D, n) : StateOf(Q[i]) \in A
    /\ \A A \in OwnAttr(S, D, n) : Cardinality({i \in DOMAIN Q : StateOf(Q[i]) \in A}) = 1
\* seeds are sound (inside an attractor inside the node) and duplicate-free
SeedsSoundFor(S, D, n, Q) ==
    /\ \A i \in DOMAIN Q : IsState(Q[i]) /\ \E A \in S.attr : StateOf(Q[i]) \in A /\ \A s \in A : In(s, D.nodes[n].space)
    /\ \A i, j \in DOMAIN Q : i # j => \A A \in S.attr : ~(StateOf(Q[i]) \in A /\ StateOf(Q[j]) \in A)
SetsExactFor(S, Q, T) ==
    /\ Len(T) = Len(Q)
    /\ \A i \in DOMAIN Q : IsState(Q[i]) /\ StateOf(Q[i]) \in SeqToSet(T[i]) /\ SeqToSet(T[i]) \in S.attr

\* compute_attractors_symbolic(candidate_states = C, seeds_only): candidates are tested in order
\* against (later candidates) + (child motifs) + (closures already accepted); the reachable set of
\* an accepted candidate is its "attractor set".  Result: [seeds, sets, early].
SymAvoid(D, n) == IF D.nodes[n].expanded THEN ChildMotifs(D, n) ELSE {}
RECURSIVE SymFold(_, _, _, _, _, _, _)
SymFold(S, C, av, seedsOnly, i, accS, accT) ==
    IF i > Len(C) THEN [seeds |-> accS, sets |-> accT, early |-> FALSE]
    ELSE IF seedsOnly /\ av = {} /\ i = Len(C) /\ accS = <<>>
         THEN [seeds |-> <<C[i]>>, sets |-> <<>>, early |-> TRUE]
    ELSE LET s   == StateOf(C[i])
             R   == S.reach[s]
             hit == \/ \E j \in DOMAIN C : j > i /\ StateOf(C[j]) \in R /\ StateOf(C[j]) # s
                    \/ \E a \in av : \E u \in R : In(u, a)
                    \/ \E k \in DOMAIN accT : accT[k] \cap R # {}
         IN IF hit THEN SymFold(S, C, av, seedsOnly, i + 1, accS, accT)
            ELSE SymFold(S, C, av, seedsOnly, i + 1, Append(accS, C[i]), Append(accT, R))
SymbolicSeeds(S, D, n, C, seedsOnly) == SymFold(S, C, SymAvoid(D, n), seedsOnly, 1, <<>>, <<>>)
SetSeq(X) == SortAsc(X)                       \* attractor sets are logged as ascending state lists
SetsOf(T) == [i \in DOMAIN T |-> SetSeq(T[i])]

\* node_attractor_candidates(n, compute=True); C = result of the pipeline (Unknown: it raised).
\* Result: <<D', returned list, raised>>
CandCall(D, n, C) ==
    LET nd == D.nodes[n] IN
    IF nd.cand.k = 1 THEN <<D, nd.cand.v, FALSE>>
    ELSE IF nd.seeds.k = 1 THEN <<D, nd.seeds.v, FALSE>>
    ELSE IF C.k = 0 THEN <<D, <<>>, TRUE>>
    ELSE LET D1 == [D EXCEPT !.nodes[n].cand = C]
             D2 == IF Len(C.v) = 0 \/ (PseudoMinimal(D, n) /\ Len(C.v) = 1)
                   THEN [D1 EXCEPT !.nodes[n].seeds = C] ELSE D1
         IN <<D2, C.v, FALSE>>

\* node_attractor_seeds(n, compute=True, symbolic_fallback = fb.on); fb.seeds/fb.sets: what the
\* fallback produced if it ran.  Result: <<D', returned list, raised>>
SeedsCall(S, D, n, C, fb) ==
    LET nd == D.nodes[n] IN
    IF nd.seeds.k = 1 THEN <<D, nd.seeds.v, FALSE>>
    ELSE LET r == CandCall(D, n, C) IN
         IF r[3] THEN
             IF fb.on THEN <<[D EXCEPT !.nodes[n].seeds = Known(fb.seeds), !.nodes[n].sets = Known(fb.sets)],
                             fb.seeds, FALSE>>
             ELSE <<D, <<>>, TRUE>>
         ELSE LET D1 == r[1] c == r[2] IN
              IF Len(c) = 0 \/ (PseudoMinimal(D1, n) /\ Len(c) = 1)
              THEN <<[D1 EXCEPT !.nodes[n].seeds = Known(c)], c, FALSE>>
              ELSE LET y == SymbolicSeeds(S, D1, n, c, TRUE)
                   IN <<[D1 EXCEPT !.nodes[n].seeds = Known(y.seeds),
                                    !.nodes[n].sets = IF y.early THEN Unknown ELSE Known(SetsOf(y.sets))],
                        y.seeds, FALSE>>

\* node_attractor_sets(n, compute=True)
SetsCall(S, D, n, C) ==
    LET nd == D.nodes[n] IN
    IF nd.sets.k = 1 THEN <<D, nd.sets.v, FALSE>>
    ELSE LET r == SeedsCall(S, D, n, C, [on |-> FALSE, seeds |-> <<>>, sets |-> <<>>]) IN
         IF r[3] THEN <<D, <<>>, TRUE>>
         ELSE LET D1 == r[1] q == r[2]
                  T  == IF Len(q) > 0 THEN SetsOf(SymbolicSeeds(S, D1, n, q, FALSE).sets) ELSE <<>>
              IN <<[D1 EXCEPT !.nodes[n].sets = Known(T)], T, FALSE>>

\* reclaim_node_data(): candidates are dropped where seeds are known
Reclaim(D) == [D EXCEPT !.nodes = [i \in DOMAIN D.nodes |->
                  IF D.nodes[i].seeds.k = 1 THEN [D.nodes[i] EXCEPT !.cand = Unknown] ELSE D.nodes[i]]]

---------------------------------------------------------------------------
\* expand_attractor_seeds(size_limit): expand_minimal_spaces from the root, then a DFS that
\* descends into an unexpanded successor only if the reduced-STG query finds a candidate in it
\* outside the expanded siblings' motifs.  The query outcome is an oracle input (b); the frame
\* records `unsound` if a successor with an attractor of its own is pruned.
ASeedsBegin(size, amts) ==
    [op |-> "aseeds", done |-> FALSE, ret |-> "none", err |-> FALSE, xl |-> <<>>, sc |-> 0,
     phase |-> "min", sub |-> MinBegin(1, size, FALSE, amts), limsize |-> size,
     stack |-> <<[n |-> 1, s |-> <<>>, has |-> FALSE]>>, seen |-> {1},
     node |-> 0, succ |-> <<>>, emot |-> {}, unsound |-> FALSE]
ASeedsNeedsOracle(D, fr) ==
    /\ fr.op = "aseeds" /\ ~fr.done /\ fr.phase = "filter" /\ fr.succ # <<>>
    /\ Last(fr.succ) \notin fr.seen /\ ~D.nodes[Last(fr.succ)].expanded
MustVisit(S, D, s, emot) ==
    LET sp == D.nodes[s].space
        av == {Meet(sp, m) : m \in {x \in emot : Consistent(sp, x)}}
    IN \E A \in S.attr : (\A u \in A : In(u, sp)) /\ ~InSome(A, av)
\* the answers the reduced-STG query may give at this point (it may not miss an attractor)
ASeedsOracleChoices(S, D, fr) ==
    IF ASeedsNeedsOracle(D, fr)
    THEN {TRUE} \cup (IF MustVisit(S, D, Last(fr.succ), fr.emot) THEN {} ELSE {FALSE})
    ELSE {TRUE}
ASeedsStep(S, cfg, D, fr, b) ==
    IF fr.phase = "min" THEN
        LET r == MinStep(S, cfg, D, fr.sub)
            f == [fr EXCEPT !.sub = r[2], !.xl = r[2].xl, !.sc = r[2].sc] IN
        IF r[2].done THEN (IF r[2].err THEN <<r[1], Fail(f)>> ELSE <<r[1], [f EXCEPT !.phase = "pop"]>>)
        ELSE <<r[1], f>>
    ELSE IF fr.phase = "pop" THEN
        IF fr.stack = <<>> THEN <<D, Finish(fr, "true")>>
        ELSE LET top  == Last(fr.stack)
                 rest == Front(fr.stack) IN
             IF ~top.has /\ SizeStop(D, fr.limsize, top.n) THEN <<D, Finish(fr, "false")>>
             ELSE LET x == IF top.has THEN [d |-> D, err |-> FALSE, did |-> FALSE, fr |-> fr]
                           ELSE DoExpand(S, cfg, D, fr, top.n) IN
                  IF x.err THEN <<x.d, Fail(x.fr)>>
                  ELSE LET s0 == IF top.has THEN top.s ELSE SortDesc(Succs(x.d, top.n))
                           em == {x.d.edges[<<top.n, c>>][1] : c \in {y \in Succs(x.d, top.n) : x.d.nodes[y].expanded}}
                       IN <<x.d, [Logged(fr, x, top.n) EXCEPT !.stack = rest, !.phase = "filter",
                                                             !.node = top.n, !.succ = s0, !.emot = em]>>
    ELSE \* filter: one successor per step
        IF fr.succ = <<>> THEN <<D, [fr EXCEPT !.phase = "pop"]>>
        ELSE LET s == Last(fr.succ)
                 push == [fr EXCEPT !.seen = @ \cup {s}, !.phase = "pop",
                                    !.stack = @ \o <<[n |-> fr.node, s |-> Front(fr.succ), has |-> TRUE],
                                                     [n |-> s, s |-> <<>>, has |-> FALSE]>>]
             IN IF s \in fr.seen THEN <<D, [fr EXCEPT !.succ = Front(@)]>>
                ELSE IF D.nodes[s].expanded THEN <<D, push>>
                ELSE IF cfg.failat = fr.sc + 1 THEN <<D, Fail([fr EXCEPT !.sc = @ + 1])>>   \* the reduced-STG query raises
                ELSE IF b THEN <<D, [push EXCEPT !.sc = @ + 1]>>
                ELSE <<D, [fr EXCEPT !.sc = @ + 1, !.succ = Front(@), !.unsound = @ \/ MustVisit(S, D, s, fr.emot)]>>

---------------------------------------------------------------------------
(***************************************************************************)
(* expand_source_blocks (expand_block, and the expansion half of build()). *)
(* One step per node of the current BFS level; the motif-avoidance check   *)
(* of a block (candidates / seeds of the block's component sub-diagram     *)
(* empty?) is an oracle input, one answer per step, constrained by         *)
(* soundness: a block whose sub-network has an attractor outside the       *)
(* block's motifs may not be declared clean.                               *)
(***************************************************************************)
\* variables of the network percolated to sp that have identity dynamics on sp (source_nodes(node_bn))
NodeSources(S, sp) == {i \in FreeV(sp) : \A s \in StOf(S.nt, sp) : F(S.nt, i, s) = Bit(s, i)}
\* backward closure under the (semantic) regulators of the network percolated to sp
RECURSIVE RegClosure(_, _, _)
RegClosure(S, sp, X) ==
    LET nx == X \cup UNION {Regulators(S.nt, i, sp) : i \in X}
    IN IF nx = X THEN X ELSE RegClosure(S, sp, nx)
ReducedMotif(D, p, c) == LET m == D.edges[<<p, c>>][1] sp == D.nodes[p].space
                         IN [i \in DOMAIN m |-> IF sp[i] # 2 THEN 2 ELSE m[i]]
\* blocks of a node: sequence of [vars, nodes] in order of first appearance (successors ascending)
RECURSIVE GroupBlocks(_, _, _, _, _)
GroupBlocks(S, D, n, succ, acc) ==
    IF succ = <<>> THEN acc
    ELSE LET c  == Head(succ)
             bv == RegClosure(S, D.nodes[n].space, Fixed(ReducedMotif(D, n, c)))
             hit == {k \in DOMAIN acc : acc[k].vars = bv}
         IN GroupBlocks(S, D, n, Tail(succ),
                        IF hit = {} THEN Append(acc, [vars |-> bv, nodes |-> <<c>>])
                        ELSE LET k == CHOOSE x \in hit : TRUE IN [acc EXCEPT ![k].nodes = Append(@, c)])
MinimalBlocks(blocks) ==
    IF Len(blocks) <= 1 THEN blocks
    ELSE SelectSeq(blocks, LAMBDA b : ~\E k \in DOMAIN blocks : blocks[k].vars \subseteq b.vars /\ blocks[k].vars # b.vars)
\* stable sort by the number of successor nodes
BlockOrder(blocks) ==
    LET idx == SetToSortSeq(DOMAIN blocks, LAMBDA a, b : Len(blocks[a].nodes) < Len(blocks[b].nodes)
                                                       \/ (Len(blocks[a].nodes) = Len(blocks[b].nodes) /\ a < b))
    IN [k \in DOMAIN idx |-> blocks[idx[k]]]
\* does the sub-network induced by the block variables (on the node's space) have an attractor that lies
\* in none of the block's (reduced) motifs?
BlockHasOwnAttr(S, D, n, b) ==
    LET sp   == D.nodes[n].space
        reps == {s \in StOf(S.nt, sp) : \A i \in FreeV(sp) \ b.vars : Bit(s, i) = 0}
        PostB(s) == {Flip(s, i) : i \in {j \in b.vars : Unstable(S.nt, j, s)}}
        RECURSIVE Cl(_, _)
        Cl(fr, seen) == IF fr = {} THEN seen
                        ELSE LET nx == (UNION {PostB(s) : s \in fr}) \ seen IN Cl(nx, seen \cup nx)
        R(s)  == Cl({s}, {s})
        attrs == {R(s) : s \in {t \in reps : \A u \in R(t) : t \in R(u)}}
        mots  == {ReducedMotif(D, n, b.nodes[k]) : k \in DOMAIN b.nodes}
    IN \E A \in attrs : ~\E m \in mots : \A s \in A : In(s, m)

BlockBegin(maa, size, optsrc, exact) ==
    [op |-> "block", done |-> FALSE, ret |-> "none", err |-> FALSE, xl |-> <<>>, sc |-> 0,
     cur |-> <<1>>, i |-> 1, nxt |-> {}, maa |-> maa, optsrc |-> optsrc, exact |-> exact, limsize |-> size,
     phase |-> "node", mblocks |-> <<>>, bj |-> 0, unsound |-> FALSE]
BlockNeedsOracle(fr) == fr.op = "block" /\ ~fr.done /\ fr.phase = "clean"
\* the source fast-forward: all valuations of the source variables, first source most significant
RECURSIVE SourceKids(_, _, _, _, _, _)
SourceKids(S, D, n, srcs, m, acc) ==      \* srcs: ascending sequence; m: valuation index
    IF m >= P2[Len(srcs) + 1] THEN <<D, acc>>
    ELSE LET sp  == D.nodes[n].space
             val == [i \in DOMAIN sp |->
                        IF \E j \in DOMAIN srcs : srcs[j] = i
                        THEN LET j == CHOOSE x \in DOMAIN srcs : srcs[x] = i IN (m \div P2[Len(srcs) - j + 1]) % 2
                        ELSE sp[i]]
             r   == EnsureNode(S, D, n, val)
         IN SourceKids(S, r.d, n, srcs, m + 1, acc \cup {r.id})
BlockStep(S, cfg, D, fr, b) ==
    IF fr.phase = "clean" THEN
        LET n   == fr.cur[fr.i]
            blk == fr.mblocks[fr.bj]
            bad == b /\ BlockHasOwnAttr(S, D, n, blk)
        IN IF b THEN <<[D EXCEPT !.nodes[n].seeds = Known(<<>>), !.nodes[n].sets = Known(<<>>)],
                       [fr EXCEPT !.nxt = @ \cup SeqToSet(blk.nodes), !.phase = "node", !.i = @ + 1, !.unsound = @ \/ bad]>>
           ELSE IF fr.bj = Len(fr.mblocks)
                THEN <<D, [fr EXCEPT !.nxt = @ \cup Succs(D, n), !.phase = "node", !.i = @ + 1]>>
           ELSE <<D, [fr EXCEPT !.bj = @ + 1]>>
    ELSE IF fr.i > Len(fr.cur) THEN
        IF fr.nxt = {} THEN <<D, Finish(fr, "true")>>
        ELSE <<D, [fr EXCEPT !.cur = SortAsc(fr.nxt), !.nxt = {}, !.i = 1]>>
    ELSE LET n == fr.cur[fr.i] IN
         IF D.nodes[n].expanded THEN <<D, [fr EXCEPT !.i = @ + 1]>>
         ELSE IF fr.limsize # Unl /\ Len(D.nodes) >= fr.limsize THEN <<D, Finish(fr, "false")>>
         ELSE LET srcs == SortAsc(NodeSources(S, D.nodes[n].space)) IN
              IF srcs # <<>> /\ fr.optsrc THEN
                  LET expected == Len(D.nodes) + P2[Len(srcs) + 1] IN
                  IF expected > cfg.maxm THEN <<D, Fail(fr)>>
                  ELSE IF fr.limsize # Unl /\ expected > fr.limsize THEN <<D, Finish(fr, "false")>>
                  ELSE LET r  == SourceKids(S, D, n, srcs, 0, {})
                           \* (behaviour after the second C14 fix: the candidates computed for the stub are replaced as well)
                           D1 == [MarkExpanded(r[1], n, "other") EXCEPT !.nodes[n].seeds = Known(<<>>), !.nodes[n].sets = Known(<<>>),
                                                                         !.nodes[n].cand = Known(<<>>)]
                       IN <<D1, [fr EXCEPT !.nxt = @ \cup r[2], !.i = @ + 1]>>
              ELSE LET x == DoExpand(S, cfg, D, fr, n) IN
                   IF x.err THEN <<x.d, Fail(x.fr)>>
                   ELSE LET f1   == Logged(fr, x, n)
                            succ == SortAsc(Succs(x.d, n)) IN
                        IF succ = <<>> THEN <<x.d, [f1 EXCEPT !.i = @ + 1]>>
                        ELSE IF Len(succ) = 1 /\ ~fr.maa THEN <<x.d, [f1 EXCEPT !.nxt = @ \cup {succ[1]}, !.i = @ + 1]>>
                        ELSE LET mb == BlockOrder(MinimalBlocks(GroupBlocks(S, x.d, n, succ, <<>>))) IN
                             IF ~fr.maa THEN <<x.d, [f1 EXCEPT !.nxt = @ \cup SeqToSet(mb[1].nodes), !.i = @ + 1]>>
                             ELSE <<x.d, [f1 EXCEPT !.phase = "clean", !.mblocks = mb, !.bj = 1]>>

---------------------------------------------------------------------------
(***************************************************************************)
(* expand_source_SCCs (expand_scc), written as a recursive function: the   *)
(* component sub-diagrams are diagrams of sub-networks and are expanded by *)
(* the same algorithm.  Result: [d, ret, orc, unsound, xl].                *)
(* Oracle inputs (orc): the answers "candidates of this sub-diagram node   *)
(* are empty" consulted when motif-avoidant attractors are checked, in     *)
(* call order; an answer TRUE for a node that has an attractor of its own  *)
(* is recorded as unsound.                                                 *)
(***************************************************************************)
Impose(s, sp) == LET RECURSIVE Sum(_)
                     Sum(i) == IF i = 0 THEN 0 ELSE (IF sp[i] # 2 THEN sp[i] ELSE Bit(s, i)) * P2[i] + Sum(i - 1)
                 IN Sum(Len(sp))
\* the network induced by the variables Cv on the space sp (the other variables become constants)
SubNet(nt, sp, Cv) ==
    [n |-> nt.n,
     f |-> [i \in V(nt) |-> [k \in 1..P2[nt.n + 1] |->
               IF i \in Cv THEN F(nt, i, Impose(k - 1, sp)) ELSE (IF sp[i] # 2 THEN sp[i] ELSE 0)]]]
\* source SCCs of the network percolated to sp: non-trivial strongly connected sets of free variables without regulators
\* outside, ordered as lists of variable indices
SourceSCCs(S, sp) ==
    LET fv == FreeV(sp)
        Reg(i) == Regulators(S.nt, i, sp)
        RECURSIVE Up(_)                              \* backward closure
        Up(X) == LET nx == X \cup UNION {Reg(i) : i \in X} IN IF nx = X THEN X ELSE Up(nx)
        Scc(v) == {u \in Up({v}) : v \in Up({u})}
        nontrivial(v) == Cardinality(Scc(v)) > 1 \/ v \in Reg(v)
        sccs == {Scc(v) : v \in {x \in fv : nontrivial(x) /\ Up(Scc(x)) = Scc(x)}}
        Lt(a, b) == LET sa == SortAsc(a) sb == SortAsc(b)
                        RECURSIVE L(_)
                        L(k) == IF k > Len(sa) THEN k <= Len(sb)
                                ELSE IF k > Len(sb) THEN FALSE
                                ELSE IF sa[k] # sb[k] THEN sa[k] < sb[k] ELSE L(k + 1)
                    IN L(1)
    IN SetToSortSeq(sccs, Lt)
ExtSpace(sub, at, Cv) == [i \in DOMAIN at |-> IF at[i] # 2 THEN at[i] ELSE IF i \in Cv THEN sub[i] ELSE 2]
OnlyVars(m, Cv) == [i \in DOMAIN m |-> IF i \in Cv THEN m[i] ELSE 2]
EmptySeeds(D, n) == [D EXCEPT !.nodes[n].seeds = Known(<<>>), !.nodes[n].sets = Known(<<>>)]
\* the source shortcut of the root (behaviour after the second C14 fix: candidates of the stub are replaced too)
EmptyAll(D, n) == [D EXCEPT !.nodes[n].seeds = Known(<<>>), !.nodes[n].sets = Known(<<>>), !.nodes[n].cand = Known(<<>>)]
\* oracle: a logged answer sequence (trace validation), or "exact" (model checking: claims emptiness exactly when it is true)
OrcSeq(q) == [mode |-> "seq", q |-> q]
OrcExact  == [mode |-> "exact", q |-> <<>>]
Take(orc, truth) == IF orc.mode = "exact" THEN <<truth, orc>>
                    ELSE IF orc.q = <<>> THEN <<FALSE, orc>> ELSE <<Head(orc.q), [orc EXCEPT !.q = Tail(@)]>>

\* attach_scc_subdiagram.  st = [d, orc, unsound]; result adds mins (sequence of main ids)
RECURSIVE AttachNodes(_, _, _, _, _, _, _, _, _)
AttachNodes(S, subS, subD, at, Cv, maa, k, st, acc) ==     \* acc = [map, mins]
    IF k > Len(subD.nodes) THEN <<st, acc>>
    ELSE LET ext == ExtSpace(subD.nodes[k].space, st.d.nodes[at].space, Cv)
             r   == EnsureNode(S, st.d, 0, ext)
             ism == IsMinimalNode(subD, k)
             D1  == IF ism THEN r.d
                    ELSE MarkExpanded(IF r.d.nodes[r.id].expanded THEN r.d ELSE ClearAttr(r.d, r.id), r.id,
                                      IF r.d.nodes[r.id].expanded THEN r.d.nodes[r.id].how ELSE "other")
             o   == IF maa THEN Take(st.orc, OwnAttr(subS, subD, k) = {}) ELSE <<FALSE, st.orc>>
             D2  == IF maa /\ o[1] THEN EmptySeeds(D1, r.id) ELSE D1
             bad == maa /\ o[1] /\ OwnAttr(subS, subD, k) # {}
         IN AttachNodes(S, subS, subD, at, Cv, maa, k + 1,
                        [d |-> D2, orc |-> o[2], unsound |-> st.unsound \/ bad],
                        [map |-> Append(acc.map, r.id), mins |-> IF ism THEN Append(acc.mins, r.id) ELSE acc.mins])
RECURSIVE AttachEdges(_, _, _, _, _)
AttachEdges(D, subD, map, Cv, todo) ==
    IF todo = {} THEN D
    ELSE LET e == CHOOSE x \in todo : TRUE
         IN AttachEdges(EnsureEdge(D, map[e[1]], map[e[2]], OnlyVars(subD.edges[e][1], Cv)), subD, map, Cv, todo \ {e})
Attach(S, subS, subD, at, Cv, maa, st) ==
    IF Len(subD.nodes) = 1 THEN <<st, <<at>>>>
    ELSE LET r   == AttachNodes(S, subS, subD, at, Cv, maa, 2, st, [map |-> <<at>>, mins |-> <<>>])
             st1 == r[1]
             D1  == AttachEdges(st1.d, subD, r[2].map, Cv, DOMAIN subD.edges)
             D2  == MarkExpanded(IF D1.nodes[at].expanded THEN D1 ELSE ClearAttr(D1, at), at,
                                 IF D1.nodes[at].expanded THEN D1.nodes[at].how ELSE "other")
             o   == IF maa THEN Take(st1.orc, OwnAttr(subS, subD, 1) = {}) ELSE <<FALSE, st1.orc>>
             D3  == IF maa /\ o[1] THEN EmptySeeds(D2, at) ELSE D2
             bad == maa /\ o[1] /\ OwnAttr(subS, subD, 1) # {}
         IN <<[d |-> D3, orc |-> o[2], unsound |-> st1.unsound \/ bad], r[2].mins>>

RECURSIVE SccRun(_, _, _, _, _)
RECURSIVE SccLevels(_, _, _, _, _)
RECURSIVE SccNodes(_, _, _, _, _, _)
RECURSIVE SccComponents(_, _, _, _, _, _, _)
RECURSIVE AttachAll(_, _, _, _, _, _, _, _)

\* st = [d, orc, unsound, xl, ok]
AttachAll(S, subS, subD, Cv, maa, ats, st, mins) ==
    IF ats = <<>> THEN <<st, mins>>
    ELSE LET r == Attach(S, subS, subD, Head(ats), Cv, maa, [d |-> st.d, orc |-> st.orc, unsound |-> st.unsound])
         IN AttachAll(S, subS, subD, Cv, maa, Tail(ats),
                      [st EXCEPT !.d = r[1].d, !.orc = r[1].orc, !.unsound = r[1].unsound], mins \o r[2])
SccComponents(S, maxm, n, maa, sccs, st, ats) ==
    IF sccs = <<>> \/ ~st.ok THEN <<st, ats>>
    ELSE LET Cv   == Head(sccs)
             subS == SemOf(SubNet(S.nt, st.d.nodes[n].space, Cv))
             sub  == SccRun(subS, maxm, NewDiagram(subS), maa, st.orc)
         IN IF sub.ret # "true" THEN <<[st EXCEPT !.ok = FALSE, !.orc = sub.orc], ats>>
            ELSE LET r == AttachAll(S, subS, sub.d, Cv, maa, ats,
                                    [st EXCEPT !.orc = sub.orc, !.unsound = st.unsound \/ sub.unsound], <<>>)
                 IN SccComponents(S, maxm, n, maa, Tail(sccs), r[1], r[2])
ExpandPlainIn(S, maxm, st, n) ==
    LET x == ExpandOneF(S, st.d, n, maxm, FALSE)
    IN [st EXCEPT !.d = x.d, !.ok = st.ok /\ ~x.err, !.xl = IF x.did THEN Append(st.xl, n) ELSE st.xl]
SccNodes(S, maxm, maa, todo, st, nxt) ==
    IF todo = <<>> \/ ~st.ok THEN <<st, nxt>>
    ELSE LET n    == Head(todo)
             sccs == SourceSCCs(S, st.d.nodes[n].space)
         IN IF Len(sccs) <= 1 THEN
                LET st1 == ExpandPlainIn(S, maxm, st, n)
                IN SccNodes(S, maxm, maa, Tail(todo), st1, nxt \cup Succs(st1.d, n))
            ELSE LET r == SccComponents(S, maxm, n, maa, sccs, st, <<n>>) IN
                 IF r[2] = <<n>> THEN
                     LET st1 == ExpandPlainIn(S, maxm, r[1], n)
                     IN SccNodes(S, maxm, maa, Tail(todo), st1, nxt \cup Succs(st1.d, n))
                 ELSE SccNodes(S, maxm, maa, Tail(todo), r[1], nxt \cup SeqToSet(r[2]))
SccLevels(S, maxm, maa, level, st) ==
    IF level = {} \/ ~st.ok THEN st
    ELSE LET r == SccNodes(S, maxm, maa, SortAsc(level), st, {}) IN SccLevels(S, maxm, maa, r[2], r[1])
SccRun(S, maxm, D, maa, orc) ==
    LET srcs == SortAsc(NodeSources(S, D.nodes[1].space))
        st0  == [d |-> D, orc |-> orc, unsound |-> FALSE, xl |-> <<>>, ok |-> TRUE]
        fin  == IF srcs # <<>> THEN
                    IF P2[Len(srcs) + 1] > maxm THEN [st0 EXCEPT !.ok = FALSE]
                    ELSE LET r == SourceKids(S, D, 1, srcs, 0, {})
                             D1 == EmptyAll(MarkExpanded(r[1], 1, IF D.nodes[1].expanded THEN D.nodes[1].how ELSE "other"), 1)
                         IN SccLevels(S, maxm, maa, r[2], [st0 EXCEPT !.d = D1])
                ELSE SccLevels(S, maxm, maa, {1}, st0)
    IN [d |-> fin.d, ret |-> IF fin.ok THEN "true" ELSE "error", orc |-> fin.orc, unsound |-> fin.unsound, xl |-> fin.xl]

---------------------------------------------------------------------------
\* dispatch
StepFrame(S, cfg, D, fr, b) ==
    CASE fr.op = "exp"    -> ExpStep(S, cfg, D, fr)
      [] fr.op = "bfs"    -> BfsStep(S, cfg, D, fr)
      [] fr.op = "dfs"    -> DfsStep(S, cfg, D, fr)
      [] fr.op = "tgt"    -> TgtStep(S, cfg, D, fr)
      [] fr.op = "min"    -> MinStep(S, cfg, D, fr)
      [] fr.op = "aseeds" -> ASeedsStep(S, cfg, D, fr, b)
      [] fr.op = "block"  -> BlockStep(S, cfg, D, fr, b)
NeedsOracle(D, fr) == ASeedsNeedsOracle(D, fr) \/ BlockNeedsOracle(fr)
OracleChoices(S, D, fr) ==
    IF BlockNeedsOracle(fr)
    THEN {FALSE} \cup (IF BlockHasOwnAttr(S, D, fr.cur[fr.i], fr.mblocks[fr.bj]) THEN {} ELSE {TRUE})
    ELSE ASeedsOracleChoices(S, D, fr)

\* run to completion; oracle answers are consumed from the sequence `orc` (missing answers: TRUE)
RECURSIVE RunFrame(_, _, _, _, _)
RunFrame(S, cfg, D, fr, orc) ==
    IF fr.done THEN <<D, fr, orc>>
    ELSE IF NeedsOracle(D, fr)
         THEN LET r == StepFrame(S, cfg, D, fr, IF orc = <<>> THEN (fr.op # "block") ELSE Head(orc))
              IN RunFrame(S, cfg, r[1], r[2], IF orc = <<>> THEN orc ELSE Tail(orc))
         ELSE LET r == StepFrame(S, cfg, D, fr, TRUE) IN RunFrame(S, cfg, r[1], r[2], orc)

(***************************************************************************)
(* State predicates (the listed properties are conjunctions of these).     *)
(***************************************************************************)
NoDupSpaces(D) == \A a, b \in Ids(D) : D.nodes[a].space = D.nodes[b].space => a = b
IndexExact(D)  == /\ DOMAIN D.idx = {D.nodes[n].space : n \in Ids(D)}
                  /\ \A n \in Ids(D) : D.idx[D.nodes[n].space] = n
RootOK(S, D)   == Len(D.nodes) >= 1 /\ D.nodes[1].space = S.root
EdgesWF(D)     == \A e \in DOMAIN D.edges : e[1] \in Ids(D) /\ e[2] \in Ids(D) /\ e[1] # e[2] /\ Len(D.edges[e]) >= 1
\* every edge leads to a strictly smaller space (so the graph is acyclic); the step functions, which propagate depths along
\* edges, are only applied to diagrams with this property
EdgesDescend(D) == \A e \in DOMAIN D.edges :
                      /\ e[1] \in Ids(D) /\ e[2] \in Ids(D)
                      /\ Sub(D.nodes[e[2]].space, D.nodes[e[1]].space) /\ D.nodes[e[2]].space # D.nodes[e[1]].space

\* every node is a percolated trap space of the network
NodesArePercolatedTraps(S, D) ==
    \A n \in Ids(D) : D.nodes[n].space \in S.traps /\ Perc(S.nt, D.nodes[n].space) = D.nodes[n].space

\* successors and motif lists of a plainly expanded node are those of the full diagram
\* (strict: every motif exactly once - guaranteed for histories of plain expansion calls only; e.g. expand_scc on
\* an already expanded root with source variables re-adds the same motifs to the existing edges)
PlainExactS(S, D, n, strict) ==
    LET sp == D.nodes[n].space
        ms == MotifsOf(S, sp, sp = S.root)
        kids == {Perc(S.nt, ms[k]) : k \in DOMAIN ms}
    IN IF strict THEN
          /\ {D.nodes[c].space : c \in Succs(D, n)} = kids
          /\ \A c \in Succs(D, n) :
                LET lst == D.edges[<<n, c>>]
                    exp == SelectSeq(ms, LAMBDA m : Perc(S.nt, m) = D.nodes[c].space)
                IN SeqToSet(lst) = SeqToSet(exp) /\ Len(lst) = Len(exp)     \* exactly these motifs, each once (any order)
       ELSE \* after non-plain operations (e.g. expand_scc on an already expanded root that gains source variables by
            \* percolation) a plainly expanded node may have received further, sound successors: its complete set of
            \* true successors must still be there
          /\ kids \subseteq {D.nodes[c].space : c \in Succs(D, n)}
          /\ \A c \in Succs(D, n) : Sub(D.nodes[c].space, sp) /\ D.nodes[c].space # sp
PlainExact(S, D, n) == PlainExactS(S, D, n, TRUE)
\* successors of a node expanded by skipping / shortcuts: trap spaces strictly inside that keep
\* every minimal trap space reachable
OtherSound(S, D, n) ==
    LET sp == D.nodes[n].space IN
    /\ \A c \in Succs(D, n) : Sub(D.nodes[c].space, sp) /\ D.nodes[c].space # sp
    \* (motifs on such edges may be written relative to the parent, e.g. those copied from a component
    \* sub-diagram: only require that parent + motif contains the child)
    /\ \A c \in Succs(D, n) : \A k \in DOMAIN D.edges[<<n, c>>] :
           LET m == D.edges[<<n, c>>][k] IN Consistent(sp, m) /\ Sub(D.nodes[c].space, Meet(sp, m))
    /\ IF Succs(D, n) = {} THEN sp \in S.mint
       ELSE \A t \in MinTrapsIn(S, sp) : \E c \in Succs(D, n) : Sub(t, D.nodes[c].space)
PartialFaithfulS(S, D, strict) ==
    /\ NoDupSpaces(D)
    /\ \A n \in Ids(D) :
          /\ (~D.nodes[n].expanded => Succs(D, n) = {} /\ D.nodes[n].how = "none")
          /\ (D.nodes[n].expanded /\ D.nodes[n].how = "plain" => PlainExactS(S, D, n, strict))
          /\ (D.nodes[n].expanded /\ D.nodes[n].how # "plain" => OtherSound(S, D, n))
          /\ (D.nodes[n].skipped => D.nodes[n].expanded)
PartialFaithful(S, D) == PartialFaithfulS(S, D, TRUE)

\* the diagram is the full succession diagram
FullExact(S, D) ==
    /\ RootOK(S, D) /\ NoDupSpaces(D)
    /\ {D.nodes[n].space : n \in Ids(D)} = S.diag
    /\ \A n \in Ids(D) : D.nodes[n].expanded /\ PlainExact(S, D, n)
    /\ {D.nodes[n].space : n \in {x \in Ids(D) : Succs(D, x) = {}}} = S.mint

\* minimal nodes are exactly the minimal trap spaces, each once
MinExact(S, D) ==
    LET mn == {n \in Ids(D) : IsMinimalNode(D, n)} IN
    /\ {D.nodes[n].space : n \in mn} = S.mint
    /\ Cardinality(mn) = Cardinality(S.mint)

\* depth = longest path from the root; nodes not reachable from the root through edges have 0
RECURSIVE Longest(_, _, _)
Longest(D, n, fuel) ==
    IF fuel = 0 \/ Preds(D, n) = {} THEN 0
    ELSE 1 + Max({Longest(D, p, fuel - 1) : p \in Preds(D, n)})
DepthExact(D) == \A n \in Ids(D) : D.nodes[n].depth = Longest(D, n, Len(D.nodes))

\* cached attractor data is correct for the current successors
CacheFresh(S, D) ==
    \A n \in Ids(D) :
       LET nd == D.nodes[n] IN
       /\ nd.cand.k = 1  => Covers(S, D, n, nd.cand.v)
       /\ nd.seeds.k = 1 => IF nd.skipped THEN SeedsSoundFor(S, D, n, nd.seeds.v)
                            ELSE SeedsExactFor(S, D, n, nd.seeds.v)
       /\ nd.sets.k = 1 /\ nd.seeds.k = 1 => SetsExactFor(S, nd.seeds.v, nd.sets.v)
       /\ nd.sets.k = 1 /\ nd.seeds.k = 0 => \A i \in DOMAIN nd.sets.v : SeqToSet(nd.sets.v[i]) \in S.attr

\* C14, second sentence, as a property of one step P -> D: an operation that gives a previously unexpanded node
\* successors discards or replaces what was computed while it had none.  Observable form: a candidate the node still
\* reports does not lie inside one of its new successors (a list computed for the node WITH these successors avoids
\* their motifs, so it never does; a list left over from the stub covers the whole node).
CacheDiscarded(P, D) ==
    \A n \in Ids(P) \cap Ids(D) :
        (~P.nodes[n].expanded /\ D.nodes[n].expanded /\ D.nodes[n].cand.k = 1) =>
            \A i \in DOMAIN D.nodes[n].cand.v : \A c \in Succs(D, n) : ~Sub(D.nodes[n].cand.v[i], D.nodes[c].space)

\* every attractor is represented by exactly one seed in the whole diagram (C01 at completion)
AllSeedsKnown(D, X) == \A n \in X : D.nodes[n].seeds.k = 1
SeedHits(D, X, A) == {<<n, i>> \in UNION {{<<m, j>> : j \in DOMAIN D.nodes[m].seeds.v} : m \in X} :
                          IsState(D.nodes[n].seeds.v[i]) /\ StateOf(D.nodes[n].seeds.v[i]) \in A}
SeedBijection(S, D, X) == \A A \in S.attr : Cardinality(SeedHits(D, X, A)) = 1
AtLeastOnce(S, D, X) == \A A \in S.attr : Cardinality(SeedHits(D, X, A)) >= 1
NoMAA(S) == \A A \in S.attr : \E t \in S.mint : \A s \in A : In(s, t)
=============================================================================
