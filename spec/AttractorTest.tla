---------------------------- MODULE AttractorTest ----------------------------
(***************************************************************************)
(* symbolic_attractor_test (attractor_symbolic.py): interleaved forward    *)
(* saturation from the pivot and backward saturation from the avoid set,   *)
(* over a growing list of "saturated" variables.                           *)
(*                                                                         *)
(* The symbolic-size heuristic that may postpone forward growth is an      *)
(* ORACLE here: whenever the code consults it, the model may decline       *)
(* (nondeterministically) unless one of the code's overriding conditions   *)
(* holds: no avoid set, all variables saturated, or force_forward (set     *)
(* once no unsaturated variable can move; behaviour after the C13 fix).    *)
(* With Force = FALSE the model is the code before the fix.                *)
(*                                                                         *)
(* One action per iteration of each inner loop.  Properties:               *)
(*   Termination (liveness, under weak fairness of Next)                   *)
(*   Contract:  result "hit"     <=> pivot can reach the initial avoid set *)
(*              result "closure"  => reach = forward closure of the pivot  *)
(***************************************************************************)
EXTENDS BoolNet, Integers, FiniteSetsExt, Json, IOUtils

CONSTANTS NetMode,    \* "all2" | "file"
          Force       \* TRUE: force_forward exists (fixed code); FALSE: code before the fix

VARIABLES nt, pivot, avoid0, reach, avoid, sat, conf, other, allDone, force, pc, result
vars == <<nt, pivot, avoid0, reach, avoid, sat, conf, other, allDone, force, pc, result>>

AllNets2 == LET TT == [1..4 -> {0, 1}] IN {[n |-> 2, f |-> <<a, b>>] : a \in TT, b \in TT}
FileNets == IF NetMode = "file" THEN ndJsonDeserialize(IF "CATALOGUE" \in DOMAIN IOEnv THEN IOEnv.CATALOGUE ELSE "catalogue.ndjson") ELSE <<>>
Nets == IF NetMode = "all2" THEN AllNets2 ELSE {FileNets[i].net : i \in DOMAIN FileNets}

PostOut(i, X) == PostVar(nt, i, X) \ X
PreOut(i, X)  == PreVar(nt, i, X) \ X
NoAvoid == avoid0 = {}

Init == /\ nt \in Nets
        /\ pivot \in States(nt)
        /\ avoid0 \in SUBSET (States(nt) \ {pivot})
        /\ reach = {pivot}
        /\ avoid = avoid0
        /\ sat = {}
        \* conflict variables: those in which some avoid state differs from the pivot
        /\ conf = {i \in V(nt) : \E s \in avoid0 : Bit(s, i) # Bit(pivot, i)}
        /\ other = V(nt) \ conf
        /\ allDone = TRUE
        /\ force = FALSE
        /\ pc = "fwd"
        /\ result = "none"

Hit == avoid \cap reach # {}
Finish(r) == /\ pc' = "done" /\ result' = r
             /\ UNCHANGED <<nt, pivot, avoid0, reach, avoid, sat, conf, other, allDone, force>>

\* one iteration of the forward saturation loop
Fwd == /\ pc = "fwd"
       /\ IF ~NoAvoid /\ Hit THEN Finish("hit")
          ELSE LET movers == {v \in sat : PostOut(v, reach) # {}} IN
               IF movers = {} THEN /\ pc' = IF NoAvoid THEN "pick" ELSE "bwd"
                                   /\ UNCHANGED <<nt, pivot, avoid0, reach, avoid, sat, conf, other, allDone, force, result>>
               ELSE \/ \E v \in movers :          \* growth admitted
                          /\ reach' = reach \cup PostOut(v, reach)
                          /\ allDone' = FALSE
                          /\ UNCHANGED <<nt, pivot, avoid0, avoid, sat, conf, other, force, pc, result>>
                    \/ /\ ~NoAvoid /\ (conf \cup other) # {} /\ ~(Force /\ force)   \* growth declined by the size oracle
                       /\ allDone' = FALSE
                       /\ pc' = "bwd"
                       /\ UNCHANGED <<nt, pivot, avoid0, reach, avoid, sat, conf, other, force, result>>
\* one iteration of the backward saturation loop
Bwd == /\ pc = "bwd"
       /\ IF Hit THEN Finish("hit")
          ELSE LET movers == {v \in sat : PreOut(v, avoid) # {}} IN
               IF movers = {} THEN /\ pc' = "pick"
                                   /\ UNCHANGED <<nt, pivot, avoid0, reach, avoid, sat, conf, other, allDone, force, result>>
               ELSE \E v \in movers :
                       /\ avoid' = avoid \cup PreOut(v, avoid)
                       /\ allDone' = FALSE
                       /\ UNCHANGED <<nt, pivot, avoid0, reach, sat, conf, other, force, pc, result>>
\* add one unsaturated variable that can move (any order: superset of the code's order), then
\* close the main-loop iteration
CanMove(v) == PostOut(v, reach) # {} \/ (~NoAvoid /\ PreOut(v, avoid) # {})
Pick == /\ pc = "pick"
        /\ LET movers == {v \in conf \cup other : CanMove(v)} IN
           IF movers # {} THEN
               \E v \in movers :
                  /\ reach' = reach \cup PostOut(v, reach)
                  /\ avoid' = IF NoAvoid THEN avoid ELSE avoid \cup PreOut(v, avoid)
                  /\ conf' = conf \ {v} /\ other' = other \ {v} /\ sat' = sat \cup {v}
                  /\ allDone' = TRUE /\ pc' = "fwd"          \* all_done was set FALSE: next main iteration
                  /\ UNCHANGED <<nt, pivot, avoid0, force, result>>
           ELSE IF allDone THEN Finish("closure")
           ELSE /\ force' = TRUE
                /\ allDone' = TRUE /\ pc' = "fwd"
                /\ UNCHANGED <<nt, pivot, avoid0, reach, avoid, sat, conf, other, result>>

Next == Fwd \/ Bwd \/ Pick
Spec == Init /\ [][Next]_vars /\ WF_vars(Next)

Termination == <>(pc = "done")

TypeOK == pc \in {"fwd", "bwd", "pick", "done"} /\ reach \subseteq States(nt) /\ avoid \subseteq States(nt)
Contract ==
    pc = "done" =>
       LET R == ReachSet(nt, pivot) IN
       /\ result = "hit" <=> (R \cap avoid0 # {})
       /\ result = "closure" => reach = R
\* reach stays inside the forward closure, avoid inside the backward closure
Sound == reach \subseteq ReachSet(nt, pivot) /\ avoid \subseteq BackReach(nt, avoid0)
=============================================================================
