#!/bin/bash
# tools_seed.sh <seed-dir> <name> <check ids...>
# 1. confirms the seeded defect in a scratch worktree (demo passes without, fails with the patch; repo tests pass with it)
# 2. runs the given checks (quick tier) against the patched scratch worktree (VERIF_REPO), never touching /repo
# 3. stores patch/demo/meta + results under /verif/seeded/<name>/ and removes the worktree
set -u
SRC=$1; NAME=$2; shift 2
WT=/tmp/verify_$NAME
OUT=/verif/seeded/$NAME
mkdir -p $OUT
cp $SRC/patch.diff $SRC/demo.py $OUT/ 2>/dev/null
cp $SRC/meta.json $OUT/agent_meta.json 2>/dev/null
git -C /repo worktree remove --force $WT 2>/dev/null
git -C /repo worktree add -q $WT HEAD || exit 2
(cd $WT && PYTHONPATH=$WT timeout 600 /venv/bin/python $OUT/demo.py > $OUT/demo_without.txt 2>&1); A=$?
if ! git -C $WT apply --3way $OUT/patch.diff 2> $OUT/apply.txt; then echo "PATCH DOES NOT APPLY"; cat $OUT/apply.txt; git -C /repo worktree remove --force $WT; exit 2; fi
(cd $WT && PYTHONPATH=$WT timeout 600 /venv/bin/python $OUT/demo.py > $OUT/demo_with.txt 2>&1); B=$?
(cd $WT && PYTHONPATH=$WT timeout 1200 /venv/bin/python -m pytest -q -p no:cacheprovider --timeout=900 --deselect tests/clingo_test.py::test_clingo > $OUT/tests_with.txt 2>&1); T=$?
echo "demo without patch: exit $A ; with patch: exit $B ; repo tests with patch: exit $T ($(tail -1 $OUT/tests_with.txt))"
RES=""
for c in "$@"; do
  W=/verif/work/seed_${NAME}_$c
  rm -rf $W
  (cd /verif && VERIF_REPO=$WT VERIF_WORK=$W ./check $c --tier quick > $OUT/check_$c.txt 2>&1); R=$?
  V=$(grep -c '^VIOLATION' $OUT/check_$c.txt)
  echo "check $c: exit $R, $V violation lines"
  RES="$RES $c:$R:$V"
  # keep one verdict as illustration
  F=$(ls -d $W/$c/violations/* 2>/dev/null | head -1)
  [ -n "$F" ] && cp $F/verdict.json $OUT/verdict_$c.json 2>/dev/null
  rm -rf $W
done
echo "{\"name\": \"$NAME\", \"demo_exit_without\": $A, \"demo_exit_with\": $B, \"tests_exit_with\": $T, \"checks\": \"$RES\"}" > $OUT/result.json
git -C /repo worktree remove --force $WT
