"""
Conformance of the repository's OWN test suite: a pytest plugin (``-p suite``) that records every outermost public
call the tests make on a SuccessionDiagram as an event of the same vocabulary as the schedule executor (rec.run_op),
so that the executions the maintainers wrote are validated event by event against SDTrace.tla.

 * an object is traced from the end of its constructor; the network is read from the constructor's ARGUMENT
   (``network.to_bnet()``, parsed by the harness parser), not from the cleaned-up copy the library keeps;
 * the tests mostly use published models with 5-20 variables: the harness propagates constants itself (three-valued
   evaluation plus exact constant detection on small supports), the remaining variables are the *core*; every vector
   and every state in an event is projected onto the core and TLC judges the trace against the core network
   (truth tables computed by the harness).  A space or state that disagrees with a propagated constant is reported
   (clause FIXED) - so the projection cannot hide anything;
 * state changes made between recorded calls (tests poking private methods, unpickling, ...) are logged as an
   "adopt" event: the model takes over the logged state and all state invariants are evaluated on it;
 * read-only calls are not events.  Nested calls are not events (depth counter).

Environment: SUITE_OUT (ndjson file), SUITE_MAXFULL (do not trace networks with more variables; default 40),
SUITE_MAXCORE (drop traces whose core is larger; default 9).
"""
from __future__ import annotations

import json
import os
import sys

sys.path.insert(0, os.path.dirname(__file__))

OUT = os.environ.get("SUITE_OUT", "")
MAXFULL = int(os.environ.get("SUITE_MAXFULL", "40"))
MAXCORE = int(os.environ.get("SUITE_MAXCORE", "9"))
MAXSET = 4096

_state = {"depth": 0, "test": "", "k": 0, "capture": None, "raw": None, "exc": None, "traces": [], "skipped": []}


_REG: dict = {}     # id(sd) -> (sd, trace); the strong reference keeps ids unique (the class has __slots__)


def _trace_of(sd):
    x = _REG.get(id(sd))
    return x[1] if x is not None and x[0] is sd else None


class _TooBig(Exception):
    pass


class _Trace:
    def __init__(self, sd, names, core, env, tt_core, test):
        self.names = names
        self.core = core
        self.cidx = [names.index(v) for v in core]
        self.fixed = {names.index(v): x for v, x in env.items()}
        self.tt_core = tt_core
        self.events: list[dict] = []
        self.test = test
        self.dead = ""
        self.fixed_ok = True
        self.finger = None

    # ---- projection of full-variable data onto the core -----------------------------------------------------
    def v(self, vec_):
        for i, x in self.fixed.items():
            if vec_[i] != 2 and vec_[i] != 9 and vec_[i] != x:
                self.fixed_ok = False
        return [vec_[i] for i in self.cidx]

    def vfull(self, vec_):
        """a vector that must fix every propagated constant (node spaces, seeds)"""
        for i, x in self.fixed.items():
            if vec_[i] != x:
                self.fixed_ok = False
        return [vec_[i] for i in self.cidx]

    def st(self, s):
        for i, x in self.fixed.items():
            if (s >> i) & 1 != x:
                self.fixed_ok = False
        return sum(((s >> i) & 1) << j for j, i in enumerate(self.cidx))

    def sets(self, k):
        return {"k": k["k"], "v": [sorted({self.st(s) for s in one}) for one in k["v"]]}

    def proj(self, post):
        nodes = []
        for nd in post["nodes"]:
            nodes.append({"space": self.vfull(nd["space"]), "expanded": nd["expanded"], "skipped": nd["skipped"], "depth": nd["depth"],
                          "how": nd["how"],
                          "cand": {"k": nd["cand"]["k"], "v": [self.vfull(x) for x in nd["cand"]["v"]]},
                          "seeds": {"k": nd["seeds"]["k"], "v": [self.vfull(x) for x in nd["seeds"]["v"]]},
                          "sets": self.sets(nd["sets"])})
        edges = [{"p": e["p"], "c": e["c"], "ms": [self.v(m) for m in e["ms"]], "motif": self.v(e["motif"])} for e in post["edges"]]
        idx = [{"sp": (self.vfull(e["sp"]) if 9 not in e["sp"] else [9] * len(self.cidx)), "id": e["id"]} for e in post["idx"]]
        return {"nodes": nodes, "edges": edges, "idx": idx, "len": post["len"], "depth": post["depth"], "ids": post["ids"]}

    def event(self, ev):
        e = dict(ev)
        e.pop("pipes", None)
        e["post"] = self.proj(ev["post"])
        e["target"] = self.v(ev["target"]) if ev["target"] else []
        e["mts"] = [self.v(m) for m in ev["mts"]]
        if ev["op"] in ("cand", "seeds"):
            e["out"] = [self.vfull(x) for x in ev["out"]]
        elif ev["op"] == "sets":
            e["out"] = [sorted({self.st(s) for s in one}) for one in ev["out"]]
        if len(self.core) != len(self.names):
            e["loops"] = []
            e["work"] = 0
        return e


def _fingerprint(sd):
    d = sd.dag
    return (len(sd), tuple((bool(d.nodes[i]["expanded"]), bool(d.nodes[i]["skipped"]), int(d.nodes[i]["depth"]),
                            d.nodes[i]["attractor_candidates"] is None, d.nodes[i]["attractor_seeds"] is None,
                            d.nodes[i]["attractor_sets"] is None) for i in range(len(sd))),
            tuple(sorted((p, c, len(x["all_motifs"])) for (p, c, x) in d.edges(data=True))))


def _propagate(asts, names):
    """constants of the network by three-valued propagation + exact constancy on small supports (sound, maybe incomplete)"""
    import bn
    from models import kleene, exact_const
    from pure import _ast_vars
    sups = {v: sorted(_ast_vars(a, set())) for v, a in asts.items()}
    env: dict[str, int] = {}
    progress = True
    while progress:
        progress = False
        for v in names:
            if v in env or v not in asts:
                continue
            x = kleene(asts[v], env)
            if x is None:
                x = exact_const(asts[v], {k: env[k] for k in sups[v] if k in env}, sups[v])
            if x is not None:
                env[v] = x
                progress = True
    core = [v for v in names if v not in env]
    nc = len(core)
    if nc > MAXCORE:
        return core, env, None, []
    # source variables of the network AS GIVEN (identity update function); only these are fixed all at once by the root expansion
    srcs = []
    for j, v in enumerate(core):
        if v not in asts:
            srcs.append(j + 1)
        elif len(sups[v]) <= 14 and all(bn.eval_ast(asts[v], {u: (m >> k) & 1 for k, u in enumerate(sups[v])}) == ((m >> sups[v].index(v)) & 1 if v in sups[v] else -1)
                                        for m in range(1 << len(sups[v]))):
            srcs.append(j + 1)
    tt = []
    for v in core:
        if v not in asts:
            j = core.index(v)
            tt.append([(s >> j) & 1 for s in range(1 << nc)])
            continue
        col = []
        for s in range(1 << nc):
            e_ = dict(env)
            for j, u in enumerate(core):
                e_[u] = (s >> j) & 1
            col.append(bn.eval_ast(asts[v], e_))
        tt.append(col)
    return core, env, tt, srcs


def _cfg_of(sd):
    c = sd.config
    return {"maxm": c["max_motifs_per_node"], "candlim": c["attractor_candidates_limit"],
            "rsthr": c["retained_set_optimization_threshold"], "simbudget": c["minimum_simulation_budget"],
            "nfvsthr": c["nfvs_size_threshold"]}


def _translate(name, sd, args, kw):
    """public call -> op dict of the executor (None: not an event)"""
    import inspect
    import rec
    sig = inspect.signature({"node_attractor_candidates": rec._orig_cand, "node_attractor_seeds": rec._orig_seeds}.get(name, _ORIG[name]))
    try:
        b = sig.bind(sd, *args, **kw)
    except TypeError:
        return None
    b.apply_defaults()
    a = b.arguments
    names = rec.var_names(sd)

    def node(x):
        return (sd.root() if x is None else int(x)) + 1

    def L(x):
        return -1 if x is None else int(x)
    if name == "node_successors":
        if not a["compute"] or sd.dag.nodes[a["node_id"]]["expanded"]:
            return None
        return {"op": "exp", "n": node(a["node_id"])}
    if name == "expand_bfs":
        return {"op": "bfs", "n": node(a["node_id"]), "lvl": L(a["bfs_level_limit"]), "size": L(a["size_limit"])}
    if name == "expand_dfs":
        return {"op": "dfs", "n": node(a["node_id"]), "stk": L(a["dfs_stack_limit"]), "size": L(a["size_limit"])}
    if name == "expand_minimal_spaces":
        return {"op": "min", "n": node(a["node_id"]), "size": L(a["size_limit"]), "skip": bool(a["skip_ignored"])}
    if name == "expand_attractor_seeds":
        return {"op": "aseeds", "size": L(a["size_limit"])}
    if name == "expand_to_target":
        return {"op": "tgt", "target": rec.vec(a["target"], names), "size": L(a["size_limit"])}
    if name == "expand_block":
        return {"op": "block", "maa": bool(a["find_motif_avoidant_attractors"]), "size": L(a["size_limit"]),
                "optsrc": bool(a["optimize_source_nodes"]), "exact": bool(a["exact_attractor_detection"])}
    if name == "expand_scc":
        return {"op": "scc", "maa": bool(a["find_motif_avoidant_attractors"])}
    if name == "build":
        return {"op": "build"}
    if name == "skip_to_minimal":
        return {"op": "skipmin", "n": node(a["node_id"])}
    if name == "skip_remaining":
        return {"op": "skiprem"}
    if name == "reclaim_node_data":
        return {"op": "reclaim"}
    if name == "node_attractor_candidates":
        if not a["compute"] or a["pint_minification"]:
            return None
        return {"op": "cand", "n": node(a["node_id"]), "greedy": bool(a["greedy_asp_minification"]),
                "sim": bool(a["simulation_minification"])}
    if name == "node_attractor_seeds":
        if not a["compute"]:
            return None
        return {"op": "seeds", "n": node(a["node_id"]), "fallback": bool(a["symbolic_fallback"])}
    if name == "node_attractor_sets":
        if not a["compute"]:
            return None
        return {"op": "sets", "n": node(a["node_id"])}
    return None


_ORIG: dict = {}
_METHODS = ["node_successors", "expand_bfs", "expand_dfs", "expand_minimal_spaces", "expand_attractor_seeds", "expand_to_target",
            "expand_block", "expand_scc", "build", "skip_to_minimal", "skip_remaining", "reclaim_node_data",
            "node_attractor_candidates", "node_attractor_seeds", "node_attractor_sets"]


def _add_event(tr, sd, ev):
    try:
        tr.events.append(tr.event(ev))
    except _TooBig:
        tr.dead = "attractor set too large to enumerate"
    tr.finger = _fingerprint(sd)


def _adopt_if_changed(tr, sd):
    import rec
    if tr.finger is not None and _fingerprint(sd) != tr.finger:
        ev = dict(rec.DEFAULT_EVENT)
        ev.update({"op": "adopt", "ret": "ok", "post": rec.project(sd)})
        _add_event(tr, sd, ev)


def _wrap(name):
    orig = _ORIG[name]

    def wrapper(self, *args, **kw):
        import rec
        st = _state
        if st["depth"] > 0:
            if st["capture"] == name and self is st["capture_obj"]:
                st["capture"] = None
                try:
                    r = orig(self, *args, **kw)
                    st["raw"] = ("ret", r)
                    return r
                except BaseException as e:
                    st["raw"] = ("exc", e)
                    raise
            return orig(self, *args, **kw)
        tr = _trace_of(self)
        if tr is None or tr.dead:
            return orig(self, *args, **kw)
        st["depth"] += 1
        try:
            op = _translate(name, self, args, kw)
            if op is None:
                return orig(self, *args, **kw)
            _adopt_if_changed(tr, self)
            if tr.dead:
                return orig(self, *args, **kw)
            st["capture"], st["capture_obj"], st["raw"] = name, self, None
            rec.CTX.how.setdefault(id(self), tr.__dict__.setdefault("how", {}))
            try:
                _sd2, ev = rec.run_op(self, op, timeout_s=3000.0)
            except _TooBig:
                tr.dead = "attractor set too large to enumerate"
                ev = None
            finally:
                st["capture"] = None
            if ev is not None:
                _add_event(tr, self, ev)
            raw = st["raw"]
            if raw is None:      # the executor never reached the call (cannot happen for the translated ops)
                tr.dead = "call not captured"
                return orig(self, *args, **kw)
            if raw[0] == "exc":
                raise raw[1]
            return raw[1]
        finally:
            st["depth"] -= 1
    wrapper.__name__ = name
    return wrapper


def _init_wrapper(orig_init):
    def __init__(self, network, *args, **kw):
        import bn
        import rec
        st = _state
        text = None
        if st["depth"] == 0:
            try:
                if network.variable_count() <= MAXFULL:
                    text = network.to_bnet()
            except BaseException:
                text = None
        st["depth"] += 1
        try:
            orig_init(self, network, *args, **kw)
        finally:
            st["depth"] -= 1
        if text is None or st["depth"] > 0:
            return
        try:
            names = rec.var_names(self)
            asts = bn.parse_bnet(text)
            if not set(asts) <= set(names):
                return
            core, env, tt, srcs = _propagate(asts, names)
            if tt is None:
                st["skipped"].append({"test": st["test"], "variables": len(names), "core": len(core)})
                return
            tr = _Trace(self, names, core, env, tt, st["test"])
            tr.cfg = _cfg_of(self)
            tr.srcs = srcs
            rec.CTX.how[id(self)] = tr.__dict__.setdefault("how", {})
            ev = dict(rec.DEFAULT_EVENT)
            ev.update({"op": "new", "ret": "ok", "post": rec.project(self)})
            _add_event(tr, self, ev)
            _REG[id(self)] = (self, tr)
            st["traces"].append(tr)
        except Exception as e:      # the recorder must never break a test
            st["skipped"].append({"test": st["test"], "why": "recorder: " + repr(e)})
    return __init__


def _install():
    import rec
    from biobalm import SuccessionDiagram
    orig_vss = rec.vertex_set_states

    def guarded(sd, vs, names):
        if vs.cardinality() > MAXSET:
            raise _TooBig()
        return orig_vss(sd, vs, names)
    rec.vertex_set_states = guarded
    for m in _METHODS:
        _ORIG[m] = getattr(SuccessionDiagram, m)
    for m in _METHODS:
        setattr(SuccessionDiagram, m, _wrap(m))
    SuccessionDiagram.__init__ = _init_wrapper(SuccessionDiagram.__init__)
    # the module-level entry point of the source-SCC strategy (the tests call it directly)
    import biobalm._sd_algorithms.expand_source_SCCs as sccmod
    orig_scc = sccmod.expand_source_SCCs

    def scc_fn(sd, check_maa, recursion=0, expander=None):
        if _state["depth"] > 0 or recursion != 0 or expander is not None or _trace_of(sd) is None:
            return orig_scc(sd, check_maa, recursion, expander)
        return sd.expand_scc(find_motif_avoidant_attractors=check_maa)
    sccmod.expand_source_SCCs = scc_fn


# ---- pytest hooks ------------------------------------------------------------------------------------------------
def pytest_configure(config):
    _install()


def pytest_runtest_setup(item):
    _state["test"] = item.nodeid


def pytest_sessionfinish(session, exitstatus):
    if not OUT:
        return
    os.makedirs(os.path.dirname(os.path.abspath(OUT)), exist_ok=True)
    with open(OUT, "w") as f:
        k = 0
        for tr in _state["traces"]:
            # objects whose state changed after the last recorded call are not re-read here (they may be gone)
            if tr.dead or len(tr.events) < 2:
                _state["skipped"].append({"test": tr.test, "why": tr.dead or "no recorded call"})
                continue
            k += 1
            f.write(json.dumps({"tid": f"s{k}", "test": tr.test, "net": {"n": len(tr.core), "f": tr.tt_core}, "names": tr.core,
                                "cfg": tr.cfg, "srcs": tr.srcs, "events": tr.events, "full_variables": len(tr.names),
                                "fixed_consistent": tr.fixed_ok, "meta": "repository test suite"}) + "\n")
    with open(OUT + ".skipped.json", "w") as f:
        json.dump(_state["skipped"], f, indent=1)
