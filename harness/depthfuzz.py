"""
Action-level fuzzing of SuccessionDiagram._ensure_edge from arbitrary DAG states with exact depths
(DepthTrace.tla judges).  The diagram object is put into the state directly through its `dag`.
"""
from __future__ import annotations

import json
import os
import random
import sys

sys.path.insert(0, os.path.dirname(__file__))
if os.environ.get("VERIF_REPO"):
    sys.path.insert(0, os.environ["VERIF_REPO"])


def exact_depths(n, edges):
    d = [0] * n
    changed = True
    while changed:
        changed = False
        for (p, c) in edges:
            if d[c] < d[p] + 1:
                d[c] = d[p] + 1
                changed = True
    return d


def one_trace(tid: str, seed: int) -> dict:
    from biobalm import SuccessionDiagram
    rng = random.Random(seed)
    n = rng.randint(4, 9)
    # random DAG on 0..n-1 respecting a random topological order; node 0 is the root
    order = list(range(1, n))
    rng.shuffle(order)
    order = [0] + order
    pos = {v: i for i, v in enumerate(order)}
    dens = rng.choice([0.25, 0.4, 0.6])
    edges = []
    for a in range(n):
        for b in range(n):
            if a != b and pos[a] < pos[b] and rng.random() < dens:
                edges.append((a, b))
    # every node reachable from the root (as in a real diagram) in most cases
    if rng.random() < 0.8:
        for v in range(1, n):
            if not any(c == v for (_, c) in edges):
                p = rng.choice([u for u in range(n) if pos[u] < pos[v]])
                edges.append((p, v))
    # start from a subset of the edges and add the others one by one (in random order) through _ensure_edge
    rng.shuffle(edges)
    k = rng.randint(0, len(edges))
    start, todo = edges[:k], edges[k:]
    sd = SuccessionDiagram.from_rules("a, a\n")
    sd.dag.clear()
    depth = exact_depths(n, start)
    for i in range(n):
        sd.dag.add_node(i, space={}, depth=depth[i], expanded=True, percolated_network=None, percolated_petri_net=None,
                        percolated_nfvs=None, attractor_candidates=None, attractor_seeds=None, attractor_sets=None,
                        parent_node=None, skipped=None)
    for (p, c) in start:
        sd.dag.add_edge(p, c, motif={}, all_motifs=[{}])
    steps = []
    for (p, c) in todo + ([rng.choice(start)] if start else []):
        sd._ensure_edge(p, c, {})  # noqa: SLF001
        steps.append({"p": p + 1, "c": c + 1, "post": [int(sd.dag.nodes[i]["depth"]) for i in range(n)]})
    return {"tid": tid, "n": n, "edges": [[p + 1, c + 1] for (p, c) in start], "depth": depth, "steps": steps}


def _work(t):
    return json.dumps(one_trace(t[0], t[1]))


def record_many(count: int, seed: int, outfile: str, procs: int = 16) -> int:
    from concurrent.futures import ProcessPoolExecutor
    os.makedirs(os.path.dirname(outfile), exist_ok=True)
    tasks = [(f"d{i}", seed * 1000003 + i) for i in range(count)]
    with ProcessPoolExecutor(max_workers=procs) as ex, open(outfile, "w") as f:
        for ln in ex.map(_work, tasks, chunksize=max(1, count // (procs * 4))):
            f.write(ln + "\n")
    return count
