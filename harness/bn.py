"""
Network generation and rendering for the conformance harness (trusted base: small and
self-tested).  A network is a list of truth tables: tt[i][s] in {0,1} is the value of the update
function of variable i (0-based) in state s, where bit j of s is the value of variable j.

Nothing here imports biobalm.
"""
from __future__ import annotations

import itertools
import random

LETTERS = "abcdefghijklmnop"


def names_for(n: int, style: str = "letters") -> list[str]:
    if style == "letters":
        return [LETTERS[i] for i in range(n)]
    if style == "v":
        return [f"v{i + 1}" for i in range(n)]
    raise ValueError(style)


def bit(s: int, j: int) -> int:
    return (s >> j) & 1


def support(tt_i: list[int], n: int) -> list[int]:
    """essential inputs of one truth table"""
    out = []
    for j in range(n):
        if any(tt_i[s] != tt_i[s ^ (1 << j)] for s in range(1 << n)):
            out.append(j)
    return out


# ------------------------------------------------------------------------------------------------
# generators
# ------------------------------------------------------------------------------------------------
def all_networks(n: int):
    size = 1 << n
    for tabs in itertools.product(itertools.product((0, 1), repeat=size), repeat=n):
        yield [list(t) for t in tabs]


def _random_function(rng: random.Random, n: int, i: int, kind: str) -> list[int]:
    size = 1 << n
    if kind == "dense":
        return [rng.randint(0, 1) for _ in range(size)]
    if kind == "const":
        c = rng.randint(0, 1)
        return [c] * size
    if kind == "source":
        return [bit(s, i) for s in range(size)]
    if kind in ("sparse", "monotone", "nested"):
        k = rng.randint(1, min(3, n))
        regs = rng.sample(range(n), k)
        if kind == "sparse":
            sub = [rng.randint(0, 1) for _ in range(1 << k)]
            return [sub[sum(bit(s, r) << p for p, r in enumerate(regs))] for s in range(size)]
        signs = [rng.randint(0, 1) for _ in regs]
        if kind == "monotone":
            # random and/or tree over literals
            ops = [rng.randint(0, 1) for _ in regs]

            def ev(s: int) -> int:
                acc = bit(s, regs[0]) ^ signs[0]
                for p in range(1, k):
                    lit = bit(s, regs[p]) ^ signs[p]
                    acc = (acc & lit) if ops[p] else (acc | lit)
                return acc

            return [ev(s) for s in range(size)]
        # nested canalizing
        outs = [rng.randint(0, 1) for _ in regs]
        dflt = rng.randint(0, 1)

        def evn(s: int) -> int:
            for p in range(k):
                if bit(s, regs[p]) == signs[p]:
                    return outs[p]
            return dflt

        return [evn(s) for s in range(size)]
    raise ValueError(kind)


def random_network(rng: random.Random, n: int, profile: str = "mixed") -> list[list[int]]:
    """profile: mixed | dense | sparse | modular"""
    tt = []
    for i in range(n):
        if profile == "dense":
            kind = "dense"
        elif profile == "sparse":
            kind = rng.choice(["sparse", "sparse", "monotone", "nested"])
        elif profile == "modular":
            kind = rng.choice(["sparse", "monotone", "monotone", "nested", "source"])
        else:
            kind = rng.choices(
                ["dense", "sparse", "monotone", "nested", "const", "source"],
                weights=[2, 4, 4, 3, 1, 1],
            )[0]
        tt.append(_random_function(rng, n, i, kind))
    return tt


def disjoint_union(a: list[list[int]], b: list[list[int]]) -> list[list[int]]:
    na, nb = len(a), len(b)
    n = na + nb
    out = []
    for i in range(na):
        out.append([a[i][s & ((1 << na) - 1)] for s in range(1 << n)])
    for i in range(nb):
        out.append([b[i][s >> na] for s in range(1 << n)])
    return out


def from_exprs(n: int, fns) -> list[list[int]]:
    """fns: list of python callables taking a tuple of bits"""
    return [[int(bool(f(tuple(bit(s, j) for j in range(n))))) for s in range(1 << n)] for f in fns]


def permute(tt: list[list[int]], perm: list[int], neg: list[int]) -> list[list[int]]:
    """sigma F: new variable perm[i] plays the role of old variable i, negated if neg[i]."""
    n = len(tt)
    size = 1 << n
    out: list[list[int]] = [[] for _ in range(n)]
    for i in range(n):
        col = []
        for s_new in range(size):
            s_old = 0
            for j in range(n):
                if bit(s_new, perm[j]) ^ neg[j]:
                    s_old |= 1 << j
            col.append(tt[i][s_old] ^ neg[i])
        out[perm[i]] = col
    return out


# ------------------------------------------------------------------------------------------------
# rendering
# ------------------------------------------------------------------------------------------------
def _minterm_dnf(tt_i: list[int], n: int, names: list[str]) -> str:
    sup = support(tt_i, n)
    if not sup:
        return "true" if tt_i[0] else "false"
    terms = []
    seen = set()
    for s in range(1 << n):
        key = tuple(bit(s, j) for j in sup)
        if key in seen:
            continue
        seen.add(key)
        if tt_i[s]:
            terms.append("(" + " & ".join((names[j] if v else "!" + names[j]) for j, v in zip(sup, key)) + ")")
    return " | ".join(terms)


def _shannon(tt_i: list[int], n: int, names: list[str], rng: random.Random, fixed: dict[int, int]) -> str:
    vals = {tt_i[s] for s in range(1 << n) if all(bit(s, j) == v for j, v in fixed.items())}
    if vals == {1}:
        return "true"
    if vals == {0}:
        return "false"
    free = [j for j in range(n) if j not in fixed and any(
        tt_i[s] != tt_i[s ^ (1 << j)] for s in range(1 << n) if all(bit(s, q) == v for q, v in fixed.items()))]
    j = rng.choice(free)
    hi = _shannon(tt_i, n, names, rng, {**fixed, j: 1})
    lo = _shannon(tt_i, n, names, rng, {**fixed, j: 0})
    x = names[j]
    if hi == "true" and lo == "false":
        return x
    if hi == "false" and lo == "true":
        return f"!{x}"
    if hi == "true":
        return f"({x} | {lo})"
    if hi == "false":
        return f"(!{x} & {lo})"
    if lo == "true":
        return f"(!{x} | {hi})"
    if lo == "false":
        return f"({x} & {hi})"
    return f"(({x} & {hi}) | (!{x} & {lo}))"


def free_input_candidates(tt: list[list[int]]) -> list[int]:
    """identity variables that are regulators of another variable: can be written as free inputs (no rule)"""
    n = len(tt)
    out = []
    for i in range(n):
        if all(tt[i][s] == bit(s, i) for s in range(1 << n)):
            if any(i in support(tt[j], n) for j in range(n) if j != i):
                out.append(i)
    return out


def render_bnet(tt: list[list[int]], names: list[str] | None = None, style: str = "dnf",
                rng: random.Random | None = None, order: list[int] | None = None, free_inputs: bool = False) -> str:
    n = len(tt)
    names = names or names_for(n)
    rng = rng or random.Random(0)
    lines = []
    skip = set(free_input_candidates(tt)) if free_inputs else set()
    for i in (order if order is not None else range(n)):
        if i in skip:
            continue    # a variable without a rule is a free input (identity dynamics)
        if style == "dnf":
            e = _minterm_dnf(tt[i], n, names)
        else:
            e = _shannon(tt[i], n, names, rng, {})
        lines.append(f"{names[i]}, {e}")
    return "\n".join(lines) + "\n"


# ------------------------------------------------------------------------------------------------
# evaluation of rendered text (self-test of the renderer; also used for repository models)
# ------------------------------------------------------------------------------------------------
def parse_expr(text: str):
    """bnet expression -> AST: ("var", name) ("const", 0/1) ("not", a) ("and", a, b) ("or", a, b)"""
    toks = []
    i = 0
    while i < len(text):
        c = text[i]
        if c.isspace():
            i += 1
        elif c in "()!&|":
            toks.append(c)
            i += 1
        else:
            j = i
            while j < len(text) and not text[j].isspace() and text[j] not in "()!&|":
                j += 1
            toks.append(text[i:j])
            i = j
    pos = [0]

    def peek():
        return toks[pos[0]] if pos[0] < len(toks) else None

    def eat():
        pos[0] += 1
        return toks[pos[0] - 1]

    def p_or():
        a = p_and()
        while peek() == "|":
            eat()
            a = ("or", a, p_and())
        return a

    def p_and():
        a = p_not()
        while peek() == "&":
            eat()
            a = ("and", a, p_not())
        return a

    def p_not():
        if peek() == "!":
            eat()
            return ("not", p_not())
        if peek() == "(":
            eat()
            a = p_or()
            assert eat() == ")"
            return a
        t = eat()
        if t in ("true", "1"):
            return ("const", 1)
        if t in ("false", "0"):
            return ("const", 0)
        return ("var", t)

    a = p_or()
    assert pos[0] == len(toks), text
    return a


def eval_ast(a, env: dict[str, int]) -> int:
    k = a[0]
    if k == "var":
        return env[a[1]]
    if k == "const":
        return a[1]
    if k == "not":
        return 1 - eval_ast(a[1], env)
    if k == "and":
        return eval_ast(a[1], env) & eval_ast(a[2], env)
    if k == "or":
        return eval_ast(a[1], env) | eval_ast(a[2], env)
    raise ValueError(k)


def parse_bnet(text: str) -> dict[str, tuple]:
    out = {}
    for line in text.splitlines():
        line = line.strip()
        if not line or line.startswith("#") or line.lower().startswith("targets"):
            continue
        name, expr = line.split(",", 1)
        out[name.strip()] = parse_expr(expr)
    return out


def tt_from_bnet(text: str, names: list[str]) -> list[list[int]]:
    asts = parse_bnet(text)
    n = len(names)
    tt = []
    for i, nm in enumerate(names):
        if nm not in asts:
            tt.append([bit(s, i) for s in range(1 << n)])
            continue
        tt.append([eval_ast(asts[nm], {names[j]: bit(s, j) for j in range(n)}) for s in range(1 << n)])
    return tt


def selftest(seed: int = 0, rounds: int = 200) -> int:
    rng = random.Random(seed)
    for _ in range(rounds):
        n = rng.randint(1, 5)
        tt = random_network(rng, n)
        names = names_for(n)
        for style in ("dnf", "shannon"):
            assert tt_from_bnet(render_bnet(tt, names, style, rng), names) == tt
    return rounds


if __name__ == "__main__":
    print("renderer round-trips:", selftest())
