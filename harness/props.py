"""
Per-property check definitions.  Every property is decided with the TLA+ machinery: TLC model
checks the specification and TLC validates what the implementation did.
"""
from __future__ import annotations

import json
import os
import random
import shutil
import sys

sys.path.insert(0, os.path.dirname(__file__))
import bn  # noqa: E402
import gen  # noqa: E402
import sdcheck  # noqa: E402
import tlc  # noqa: E402
from sdcheck import Result, execute_and_validate, random_tasks, run_mc, tasks_from_emitted  # noqa: E402

Q = "quick"
# thorough tier: workload sizes are multiplied by this factor (default 3: roughly 5-15 minutes per property on 16 cores)
THOROUGH_SCALE = int(os.environ.get("VERIF_THOROUGH_SCALE", "3"))


def N(q: bool, quick: int, thorough: int) -> int:
    return quick if q else thorough * THOROUGH_SCALE
FULL_BFS = {"op": "bfs", "n": 1, "lvl": -1, "size": -1}
FULL_DFS = {"op": "dfs", "n": 1, "stk": -1, "size": -1}


def nodes_of(tr):
    return len(tr["events"][-1]["post"]["nodes"])


def gadget_tasks(prefix: str, opsets: list[list[dict]], only: list[str] | None = None):
    tasks = []
    for name, tt in gen.gadget_networks().items():
        if only and name not in only:
            continue
        for j, ops in enumerate(opsets):
            tasks.append({"tid": f"{prefix}{name}_{j}", "tt": tt, "ops": ops, "meta": f"gadget:{name}"})
    return tasks


def feature_tasks(prefix: str, opsets, kinds=None, max_n=5, rng=None, hist=None):
    """
    networks selected for structural features (harness/features.py; catalogue/features.json).
    opsets: list of op lists (each applied to every network), or None with hist=(kinds, steps, tail, count) for
    random histories.
    """
    import features
    tasks = []
    for name, tt in features.feature_networks(kinds, max_n):
        if opsets is not None:
            for j, ops in enumerate(opsets):
                tasks.append({"tid": f"{prefix}{name}_{j}", "tt": tt, "ops": ops, "meta": f"feature:{name}"})
        else:
            hk, steps, tail, count = hist
            for j in range(count):
                tasks.append({"tid": f"{prefix}{name}_{j}", "tt": tt, "hseed": rng.randrange(1 << 30), "kinds": hk,
                              "steps": rng.randint(*steps), "tail": tail, "meta": f"feature:{name}"})
    return tasks


# ------------------------------------------------------------------------------------------------
def c02(res: Result):
    q = res.tier == Q
    rng = random.Random(res.seed + 2)
    invs_mc = ["Inv_WF", "Inv_PartialFaithful", "Inv_FullExact", "Inv_MinExact"]
    recs = run_mc(res, "full", ["exp", "bfs", "dfs"], 1 if q else 2, [], [1000], invs_mc, 1)
    full = [r for r in recs if r["hist"][-1][0] in ("bfs", "dfs") and r["hist"][-1][1] == 1]
    tasks = tasks_from_emitted(full, rng, N(q, 600, 5000), "m")
    for i, tt in enumerate(gen.network_pool(rng, N(q, 500, 6000), [3, 3, 4, 4, 5] if q else [3, 4, 4, 5, 5, 6])):
        tasks.append({"tid": f"r{i}", "tt": tt, "ops": [rng.choice([FULL_BFS, FULL_DFS])], "meta": "random-net full expansion"})
        if i % 4 == 0:
            # a small max_motifs_per_node: the expansion either raises (the node stays a stub) or is exact
            tasks.append({"tid": f"l{i}", "tt": tt, "cfg": {"maxm": rng.choice([1, 2, 3, 4, 5]), "candlim": 100000, "rsthr": 1000, "simbudget": 1000, "nfvsthr": 2000},
                          "ops": [rng.choice([FULL_BFS, FULL_DFS]), rng.choice([FULL_BFS, FULL_DFS])], "meta": "full expansion under a motif limit"})
    tasks += gadget_tasks("g", [[FULL_BFS], [FULL_DFS]])
    # the full expansion after the stubs of the first level were queried (their percolated Petri nets are cached by then)
    stubq = [{"op": "exp", "n": 1}] + [{"op": "cand", "n": k, "greedy": True, "sim": True} for k in (2, 3, 4, 5)]
    tasks += gadget_tasks("gq", [stubq + [FULL_BFS], stubq + [FULL_DFS]])
    tasks += feature_tasks("fq", [stubq + [FULL_BFS], stubq + [FULL_DFS]], kinds=["new_source", "modules", "deep"], max_n=6)
    tasks += feature_tasks("f", [[FULL_BFS], [FULL_DFS]], max_n=6)
    invs = ["Inv_WF", "Inv_PartialFaithful", "Inv_FullExact", "Inv_MinExact"]
    res.cov["rule"] = ("TLC explores BFS/DFS/single expansions on all 256 two-variable networks; the real library runs a full "
                       "BFS or DFS on those and on random 3-6 variable networks (sources, constants, non-monotonic functions); "
                       "TLC recomputes the full hierarchy of percolated trap spaces from the truth tables and compares nodes, "
                       "edges and motif lists. Non-trivial: distinct (network, call) whose diagram has at least 3 nodes.")
    execute_and_validate(res, tasks, invs, "full", lambda tr: nodes_of(tr) >= 3)
    res.cov["exhaustive"] = False


def c04(res: Result):
    q = res.tier == Q
    rng = random.Random(res.seed + 4)
    ops = ["exp", "bfs", "dfs", "min", "tgt", "aseeds"]
    invs_mc = ["Inv_WF", "Inv_PartialFaithful", "Inv_PlainOnly", "Inv_FullExact", "Inv_ASeedsSound"]
    recs = run_mc(res, "plain", ops, 2 if q else 3, [0, 2, 3] if q else [0, 1, 2, 3], [1000], invs_mc, 1)
    # (min with skip is part of the alphabet of MC_SD; plain histories are those without it)
    recs = [r for r in recs if not any(h[0] == "min" and h[3] for h in r["hist"])]
    if not q:
        # the same machine on the 247 three-variable networks of the catalogue (depth 1: every single call from a fresh diagram,
        # every micro-state; histories of depth 2 are covered by the replayed runs)
        recs += [r for r in run_mc(res, "plain3", ops, 1, [0, 2, 3], [1000], invs_mc, 1, netmode="file")
                 if not any(h[0] == "min" and h[3] for h in r["hist"])]
    tasks = tasks_from_emitted(recs, rng, N(q, 1500, 20000), "m", tail=[FULL_BFS])
    tasks += random_tasks(rng, N(q, 500, 6000), [3, 3, 4, 4, 5] if q else [3, 4, 4, 5, 5, 6],
                          gen.PLAIN_KINDS + ["blockplain"], (1, 4), "r", tail=[FULL_BFS])
    # configurations: small max_motifs_per_node (an expansion that would exceed it must raise and leave the node a stub)
    tasks += random_tasks(rng, N(q, 150, 2000), [3, 3, 4, 4, 5], gen.PLAIN_KINDS + ["blockplain"], (1, 4), "c", tail=[FULL_BFS],
                          cfgs=[{"maxm": m, "candlim": 100000, "rsthr": 1000, "simbudget": 1000, "nfvsthr": 2000} for m in (1, 2, 3, 4, 5)])
    tasks += feature_tasks("f", None, rng=rng, hist=(gen.PLAIN_KINDS + ["cand", "blockplain"], (2, 5), [FULL_BFS], 3 if q else 12))
    invs = ["Inv_WF", "Inv_PartialFaithful", "Inv_PlainOnly", "Inv_FullExact"]
    res.cov["rule"] = ("Histories of plain expansion calls (single node, BFS, DFS, minimal-space, attractor-seed, target-directed, block "
                       "without source shortcut; all start nodes, size/level/stack limits 0..3 and none): every abstract idle state of the "
                       "TLC model (all 256 two-variable networks, call depth <= 2 quick / 3 thorough) yields one history that is replayed in "
                       "the library, followed by a full BFS; plus random histories on 3-6 variable networks. Every event is recomputed by TLC. "
                       "Non-trivial: distinct (network, history) with >= 2 calls and >= 3 nodes.")
    execute_and_validate(res, tasks, invs, "plain", lambda tr: nodes_of(tr) >= 3 and len(tr["events"]) >= 3)


def c20(res: Result):
    q = res.tier == Q
    rng = random.Random(res.seed + 20)
    ops = ["exp", "bfs", "dfs", "min", "tgt", "skipmin", "skiprem"]
    invs_mc = ["Inv_WF", "Inv_DepthExact"]
    recs = run_mc(res, "meta", ops, 2, [0, 2, 3], [1000], invs_mc, 1)
    if not q:
        recs += run_mc(res, "meta3", ["exp", "bfs", "dfs", "skipmin"], 2, [2], [1000], invs_mc, 2, netmode="file")
    tasks = tasks_from_emitted(recs, rng, N(q, 1200, 15000), "m")
    tasks += random_tasks(rng, N(q, 600, 8000), [3, 3, 4, 4, 5] if q else [3, 4, 4, 5, 5, 6],
                          gen.PLAIN_KINDS + ["skipmin", "skiprem", "minskip", "pickle"], (1, 5), "r")
    tasks += gadget_tasks("g", [[FULL_BFS], [FULL_DFS], [{"op": "exp", "n": 1}, {"op": "exp", "n": 3}, FULL_BFS]])
    # deep diagrams with percolation shortcuts: many single-node expansions in random order
    tasks += feature_tasks("f", None, kinds=["shortcut", "shortcut2", "deep", "modules"], max_n=6, rng=rng,
                           hist=(["exp", "exp", "exp", "exp", "bfs", "dfs", "skipmin"], (6, 14), [], 4 if q else 20))
    tasks += gadget_tasks("gs", [[{"op": "build"}, {"op": "summary"}, {"op": "api"}],
                                 [{"op": "bfs", "n": 1, "lvl": 0, "size": -1}, {"op": "allseeds"}, {"op": "summary"}, {"op": "api"}],
                                 [{"op": "exp", "n": 1}, {"op": "api"}, {"op": "skiprem"}, {"op": "api"}, {"op": "scc", "maa": True}, {"op": "api"}]])
    # find_node / summary / is_subgraph / is_isomorphic
    tasks += random_tasks(rng, N(q, 400, 5000), [2, 3, 3, 4, 4, 5], ["exp", "bfs", "dfs", "min", "skipmin", "seeds", "find", "find", "find", "cmp", "cmp", "summary", "api", "api"],
                          (3, 8), "q", tail=[{"op": "build"}, {"op": "summary"}, {"op": "api"}, {"op": "cmp", "cmpops": [FULL_BFS]}])
    tasks += feature_tasks("fs", [[{"op": "build"}, {"op": "summary"}], [FULL_BFS, {"op": "allseeds"}, {"op": "summary"}],
                                  [{"op": "exp", "n": 1}, {"op": "cmp", "cmpops": [FULL_BFS]}, {"op": "cmp", "cmpops": []}, {"op": "cmp", "cmpops": [{"op": "exp", "n": 1}]}]])
    invs = ["Inv_PROJ", "Inv_DepthExact", "Inv_IndexExact", "Inv_QUERY", "Inv_C01", "Inv_SummaryOnce"]
    res.cov["rule"] = ("Same history generator as C04 extended with skip operations and pickling; after every call TLC compares ids, order, "
                       "depths and the key index with the model and checks depth = longest root path, depth() = max, ids contiguous, "
                       "len() = count on the logged state. find_node queries (existing spaces, proper sub/superspaces, random spaces), parsed "
                       "summary() texts (node count, depth, one entry per node with seeds, label minimal iff the node has no successors; after "
                       "build() every attractor exactly once) and is_subgraph / is_isomorphic between the diagram and a second diagram of the same "
                       "network expanded by other calls are compared with their definitions over the logged projections; the read-only accessors (root, len, depth, "
                       "node / stub / expanded ids, minimal_trap_spaces, node_is_minimal, node_successors, plain and reduced edge motifs) are recomputed in one bundle (op 'api'). _ensure_edge is also driven "
                       "from arbitrary DAG states with exact depths (DepthTrace). Non-trivial: distinct (network, history) reaching a node with two parents or depth >= 2.")

    def nt(tr):
        post = tr["events"][-1]["post"]
        indeg = {}
        for e in post["edges"]:
            indeg[e["c"]] = indeg.get(e["c"], 0) + 1
        return post["depth"] >= 2 or any(v >= 2 for v in indeg.values())
    execute_and_validate(res, tasks, invs, "meta", nt)
    # action-level conformance of the depth propagation from arbitrary DAG states (DepthTrace.tla)
    import depthfuzz
    wd = os.path.join(sdcheck.WORK, res.pid, "depthfuzz")
    shutil.rmtree(wd, ignore_errors=True)
    os.makedirs(wd)
    tf = os.path.join(wd, "traces.ndjson")
    depthfuzz.record_many(N(q, 1500, 20000), res.seed + 1, tf)
    out = tlc.validate_traces(tf, "DepthTrace", ["Inv_DEPTHSTEP", "Inv_DepthExactD"], wd)
    res.cov["traces_validated_against_impl"] += out["traces"]
    res.cov["states"] += out["states"]
    res.cov["transitions"] += out["generated"]
    res.cov["depth_action_traces"] = out["traces"]
    bad_tids = sorted({v[1] for v in out["violations"]})
    if bad_tids:
        traces = {json.loads(ln)["tid"]: json.loads(ln) for ln in open(tf)}
        for tid in bad_tids[:10]:
            vd = os.path.join(sdcheck.WORK, res.pid, "violations", f"depthfuzz_{tid}")
            os.makedirs(vd, exist_ok=True)
            json.dump(traces[tid], open(os.path.join(vd, "trace.json"), "w"))
            json.dump({"property": "C20", "engine": "depth-action", "failing": [list(v) for v in out["violations"] if v[1] == tid]},
                      open(os.path.join(vd, "verdict.json"), "w"), indent=1)
            res.violations.append(vd)


STRATEGY_TAILS = [
    [FULL_BFS], [FULL_DFS],
    [{"op": "min", "n": 1, "size": -1, "skip": False}],
    [{"op": "min", "n": 1, "size": -1, "skip": True}],
    [{"op": "aseeds", "size": -1}],
]


def c03(res: Result):
    q = res.tier == Q
    rng = random.Random(res.seed + 3)
    ops = ["exp", "bfs", "dfs", "min", "aseeds", "skiprem", "skipmin", "block", "scc"]
    recs = run_mc(res, "min", ops, 2, [0, 2, 3], [1000], ["Inv_WF", "Inv_MinExact", "Inv_PartialFaithful", "Inv_ASeedsSound"], 1)
    recs = [r for r in recs if not any(h[0] in ("block", "scc") for h in r["hist"])]      # (block / scc histories are run from the random workload)
    tasks = []
    sample = rng.sample(recs, min(len(recs), N(q, 1200, 12000)))
    for i, r in enumerate(sample):
        tasks += tasks_from_emitted([r], rng, 1, f"m{i}_", tail=rng.choice(STRATEGY_TAILS + [[{"op": "skiprem"}]]))
    pool = gen.network_pool(rng, N(q, 500, 6000), [3, 3, 4, 4, 5] if q else [3, 4, 4, 5, 5, 6])
    for i, tt in enumerate(pool):
        tail = rng.choice(STRATEGY_TAILS + [[{"op": "skiprem"}]])
        tasks.append({"tid": f"r{i}", "tt": tt, "hseed": rng.randrange(1 << 30), "kinds": gen.PLAIN_KINDS,
                      "steps": rng.randint(0, 3), "tail": tail, "meta": "random prefix + strategy"})
        if i % 5 == 0:
            tasks.append({"tid": f"k{i}", "tt": tt, "meta": "size-limited block, then skip_remaining",
                          "ops": [{"op": "block", "maa": rng.random() < 0.5, "optsrc": True, "exact": False, "size": rng.choice([1, 2, 3, 4, 6])},
                                  {"op": "skiprem"}]})
        # block / scc from the root of a fresh diagram, all option combinations
        if i % 2 == 0:
            op = rng.choice([
                {"op": "block", "maa": rng.random() < 0.5, "optsrc": rng.random() < 0.5, "exact": rng.random() < 0.3, "size": -1},
                {"op": "scc", "maa": rng.random() < 0.5},
                {"op": "build"}])
            tasks.append({"tid": f"s{i}", "tt": tt, "ops": [op], "meta": "fresh block/scc/build"})
    for j, tail in enumerate(STRATEGY_TAILS + [[{"op": "skiprem"}]]):
        tasks += feature_tasks(f"f{j}", None, rng=rng, hist=(gen.PLAIN_KINDS, (0, 3), tail, 1 if q else 4))
    tasks += feature_tasks("fk", [[{"op": "block", "maa": True, "optsrc": True, "exact": False, "size": z}, {"op": "skiprem"}] for z in (2, 3, 5, 7)],
                           kinds=["new_source", "modules", "maa", "deep"], max_n=6)
    tasks += gadget_tasks("gk", [[{"op": "block", "maa": True, "optsrc": True, "exact": False, "size": z}, {"op": "skiprem"}] for z in (2, 3, 5)])
    tasks += feature_tasks("fb", [[{"op": "block", "maa": m, "optsrc": o, "exact": False, "size": -1}] for m in (True, False) for o in (True, False)]
                           + [[{"op": "scc", "maa": m}] for m in (True, False)] + [[{"op": "build"}]])
    tasks += gadget_tasks("gb", [[{"op": "block", "maa": m, "optsrc": o, "exact": False, "size": -1}] for m in (True, False) for o in (True, False)]
                          + [[{"op": "scc", "maa": m}] for m in (True, False)] + [[{"op": "build"}]])
    # limited calls that may still report completion: a level-limited BFS prefix followed by a stack-limited DFS from the root and
    # vice versa (a True of the second call claims the minimal trap spaces are all there)
    lim = [[{"op": "bfs", "n": 1, "lvl": L, "size": -1}, {"op": "dfs", "n": 1, "stk": K, "size": -1}] for L in (1, 2, 3) for K in (0, 1, 2)] \
        + [[{"op": "dfs", "n": 1, "stk": K, "size": -1}, {"op": "bfs", "n": 1, "lvl": L, "size": -1}] for L in (1, 2) for K in (1, 2)]
    tasks += gadget_tasks("gl", lim)
    tasks += feature_tasks("fl", lim, kinds=["deep", "modules"], max_n=6)
    for i, tt in enumerate(pool[: N(q, 120, 1500)]):
        tasks.append({"tid": f"l{i}", "tt": tt, "ops": rng.choice(lim), "meta": "limited prefix + limited strategy from the root"})
    invs = ["Inv_MinExact", "Inv_WF"]
    res.cov["rule"] = ("Random and TLC-generated prefixes of plain expansion calls (with limits) followed by a strategy from the root "
                       "(BFS, DFS, minimal-space with/without skip_ignored, attractor-seed, skip_remaining), level-limited BFS + stack-limited DFS "
                       "pairs from the root (a limited call that returns True claims completion too), and block / source-SCC / build on "
                       "fresh diagrams with all option combinations; TLC computes the inclusion-minimal trap spaces from the truth tables and "
                       "compares with the diagram's minimal nodes (none missing, spurious or duplicated). Non-trivial: distinct cases with >= 2 minimal trap spaces.")

    def nt(tr):
        post = tr["events"][-1]["post"]
        parents = {e["p"] for e in post["edges"]}
        return sum(1 for i, n in enumerate(post["nodes"]) if n["expanded"] and (i + 1) not in parents) >= 2
    execute_and_validate(res, tasks, invs, "min", nt)


def c14(res: Result):
    q = res.tier == Q
    rng = random.Random(res.seed + 14)
    ops = ["exp", "bfs", "skipmin", "skiprem", "min", "cand", "seeds", "sets", "reclaim"]
    recs = run_mc(res, "cache", ops, 2, [2], [1000], ["Inv_WF", "Inv_CacheFresh", "Inv_PartialFaithful"], 2, properties=["CacheDiscardStep"])
    # block expansion (source shortcut, clean-block verdicts for every allowed oracle answer) followed by queries
    run_mc(res, "block", ["block", "scc", "seeds", "cand", "sets"], 3, [2], [1000], ["Inv_WF", "Inv_CacheFresh", "Inv_PartialFaithful", "Inv_ASeedsSound", "Inv_Seeds"], None,
           properties=["CacheDiscardStep"])
    if not q:
        run_mc(res, "scc3", ["exp", "scc", "seeds", "skipmin"], 2, [], [1000], ["Inv_WF", "Inv_CacheFresh", "Inv_PartialFaithful", "Inv_Seeds"], None, netmode="file")
    recs = [r for r in recs if any(h[0] in ("cand", "seeds", "sets") for h in r["hist"][:-1])]
    if not q:
        r3 = run_mc(res, "cache3", ["exp", "skipmin", "skiprem", "seeds", "sets", "reclaim"], 2, [], [1000],
                    ["Inv_WF", "Inv_CacheFresh", "Inv_PartialFaithful"], 2, netmode="file")
        recs += [r for r in r3 if any(h[0] in ("cand", "seeds", "sets") for h in r["hist"][:-1])]
    tasks = tasks_from_emitted(recs, rng, N(q, 1500, 20000), "m")
    kinds = ["exp", "bfs", "dfs", "min", "minskip", "skipmin", "skiprem", "cand", "seeds", "seeds", "sets", "reclaim", "pickle", "block", "scc", "aseeds"]
    tasks += random_tasks(rng, N(q, 600, 8000), [3, 3, 4, 4, 5], kinds, (2, 6), "r")
    tasks += gadget_tasks("g", [[{"op": "seeds", "n": 1}, {"op": "skipmin", "n": 1}],
                                [{"op": "seeds", "n": 1}, {"op": "skiprem"}],
                                [{"op": "sets", "n": 1}, {"op": "min", "n": 1, "size": -1, "skip": True}],
                                [{"op": "seeds", "n": 1}, {"op": "scc", "maa": False}],
                                [{"op": "seeds", "n": 1}, {"op": "scc", "maa": True}],
                                [{"op": "seeds", "n": 1}, {"op": "block", "maa": True, "optsrc": True, "exact": False, "size": -1}],
                                [{"op": "cand", "n": 1, "greedy": True, "sim": True}, {"op": "block", "maa": True, "optsrc": True, "exact": False, "size": -1}, {"op": "cand", "n": 1}],
                                [{"op": "cand", "n": 1, "greedy": False, "sim": False}, {"op": "scc", "maa": True}, {"op": "cand", "n": 1}],
                                [{"op": "seeds", "n": 1}, {"op": "block", "maa": False, "optsrc": True, "exact": False, "size": -1}],
                                [{"op": "sets", "n": 1}, {"op": "block", "maa": False, "optsrc": True, "exact": False, "size": -1}, {"op": "expseeds"}],
                                [{"op": "cand", "n": 1, "greedy": True, "sim": True}, {"op": "block", "maa": False, "optsrc": False, "exact": False, "size": -1}],
                                [{"op": "seeds", "n": 1}, {"op": "scc", "maa": False}, {"op": "expseeds"}],
                                [{"op": "exp", "n": 1}, {"op": "seeds", "n": 2}, {"op": "seeds", "n": 3}, {"op": "block", "maa": False, "optsrc": True, "exact": False, "size": -1}]])
    tasks += feature_tasks("f", None, rng=rng, hist=(kinds, (3, 7), [], 2 if q else 8))
    # attractor data on unexpanded inner nodes, then a strategy that gives them successors without _expand_one_node
    pats = []
    for tail in ([{"op": "scc", "maa": False}], [{"op": "scc", "maa": True}],
                 [{"op": "block", "maa": True, "optsrc": True, "exact": False, "size": -1}],
                 [{"op": "min", "n": 1, "size": -1, "skip": True}], [{"op": "skiprem"}]):
        pats.append([{"op": "exp", "n": 1}] + [{"op": "seeds", "n": k} for k in (2, 3, 4, 5)] + tail + [{"op": "expseeds"}])
        pats.append([{"op": "bfs", "n": 1, "lvl": 1, "size": -1}] + [{"op": "sets", "n": k} for k in (3, 5, 6, 8)] + tail + [{"op": "expseeds"}])
    tasks += feature_tasks("fp", pats, kinds=["modules", "new_source", "deep", "maa"], max_n=6)
    tasks += gadget_tasks("gp", pats, only=["xnor_latch", "xnor_2latch", "src_gate", "newsrc", "doc", "c14", "nscc", "nscc_latch", "nscc2"])
    for tail in ([{"op": "scc", "maa": False}], [{"op": "scc", "maa": True}]):
        deep = [[{"op": "bfs", "n": 1, "lvl": 1, "size": -1}] + [{"op": rng.choice(["seeds", "sets", "cand"]), "n": k} for k in range(2, 14)] + tail + [{"op": "expseeds"}],
                [{"op": "exp", "n": 1}, {"op": "exp", "n": 2}] + [{"op": "seeds", "n": k} for k in range(2, 10)] + tail + [{"op": "expseeds"}]]
        tasks += gadget_tasks("gq", deep, only=["nscc_latch", "nscc2"])
    invs = ["Inv_CacheFresh", "Inv_CacheDiscard"]
    res.cov["rule"] = ("Histories interleaving attractor queries (candidates / seeds / sets, also on unexpanded nodes) with every way of giving "
                       "a node successors (single expansion, BFS/DFS, minimal-space with skip_ignored, skip_to_minimal, skip_remaining, block with "
                       "source shortcut, SCC attachment), reclamation and pickling. After every call TLC checks each cached list against the "
                       "attractors of the node's *current* successors, and that a node that got successors in this call no longer reports a candidate inside one of them. Non-trivial: distinct histories in which a node with cached data later gets successors.")

    def nt(tr):
        cached = set()
        for e in tr["events"]:
            for i, n in enumerate(e["post"]["nodes"]):
                if not n["expanded"] and (n["cand"]["k"] or n["seeds"]["k"] or n["sets"]["k"]):
                    cached.add(i)
                if n["expanded"] and i in cached:
                    return True
        return False
    execute_and_validate(res, tasks, invs, "cache", nt)


COMPLETE_DEFAULT = [[{"op": "build"}],
                    [{"op": "block", "maa": True, "optsrc": True, "exact": False, "size": -1}],
                    [FULL_BFS], [FULL_DFS], [{"op": "scc", "maa": True}], [{"op": "aseeds", "size": -1}]]


def c01(res: Result):
    q = res.tier == Q
    rng = random.Random(res.seed + 1)
    recs = run_mc(res, "seeds", ["bfs", "dfs", "aseeds", "block", "scc", "seeds"], 3 if q else 4, [], [1000],
                  ["Inv_WF", "Inv_Seeds", "Inv_CacheFresh", "Inv_ASeedsSound"], None)
    tasks = []
    nets2 = list(bn.all_networks(2))
    for i, tt in enumerate(nets2 if not q else rng.sample(nets2, 128)):
        tasks.append({"tid": f"a{i}", "tt": tt, "ops": rng.choice(COMPLETE_DEFAULT) + [{"op": "expseeds"}], "meta": "two-variable network"})
    pool = gen.network_pool(rng, N(q, 450, 6000), [3, 3, 4, 4, 5] if q else [3, 4, 4, 5, 5, 6])
    for i, tt in enumerate(pool):
        tasks.append({"tid": f"r{i}", "tt": tt, "ops": COMPLETE_DEFAULT[i % 6] + [{"op": "expseeds"}], "meta": "random net"})
    for j, strat in enumerate(COMPLETE_DEFAULT):
        tasks += gadget_tasks(f"g{j}", [strat + [{"op": "expseeds"}]])
    tasks += feature_tasks("f", [strat + [{"op": "expseeds"}] for strat in COMPLETE_DEFAULT])
    # candidates requested first without any minimisation (several candidates per attractor reach the symbolic elimination)
    raw = [{"op": "cand", "n": k, "greedy": False, "sim": False} for k in range(1, 9)]
    rawpats = [strat + raw + [{"op": "expseeds"}] for strat in (COMPLETE_DEFAULT[2], COMPLETE_DEFAULT[1], COMPLETE_DEFAULT[5])]
    tasks += feature_tasks("fc", rawpats, kinds=["multi_complex_in_min_trap", "multi_attr_in_min_trap", "complex_attr", "maa", "sync_escape"], max_n=6)
    tasks += gadget_tasks("gc", rawpats[:1])
    for i, tt in enumerate(pool[:N(q, 120, 1500)]):
        tasks.append({"tid": f"c{i}", "tt": tt, "ops": rawpats[i % 3], "meta": "random net, unminimised candidates first"})
    invs = ["Inv_C01", "Inv_WF", "Inv_HANG", "Inv_QUERY"]
    res.cov["rule"] = ("Each of the six complete strategies with default settings on a fresh diagram, then seeds for every expanded node (also after "
                       "candidates were requested without minimisation, so that several candidates per attractor reach the symbolic elimination); TLC computes "
                       "the attractors (terminal SCCs of the asynchronous transition graph) from the truth tables and checks the bijection and that "
                       "each seed lies in an attractor inside its node and none of its successors. Non-trivial: networks with >= 2 attractors or an "
                       "attractor outside every minimal trap space.")

    def nt(tr):
        seeds = sum(len(n["seeds"]["v"]) for n in tr["events"][-1]["post"]["nodes"] if n["seeds"]["k"])
        return seeds >= 2
    execute_and_validate(res, tasks, invs, "seeds", nt)


def c05(res: Result):
    q = res.tier == Q
    rng = random.Random(res.seed + 5)
    ops = ["exp", "bfs", "min", "skipmin", "skiprem", "seeds"]
    recs = run_mc(res, "skip", ops, 3 if q else 4, [2], [1000], ["Inv_WF", "Inv_Seeds"], None)
    tasks = []
    pool = gen.network_pool(rng, N(q, 700, 8000), [2, 3, 3, 4, 4, 5] if q else [3, 4, 4, 5, 5, 6])
    for i, tt in enumerate(pool):
        pre = rng.choice([[{"op": "bfs", "n": 1, "lvl": rng.choice([-1, 0, 1]), "size": rng.choice([1, 2, 3, 4, 6])}],
                          [{"op": "dfs", "n": 1, "stk": rng.choice([-1, 0, 1]), "size": rng.choice([1, 2, 3, 4, 6])}],
                          [{"op": "min", "n": 1, "size": rng.choice([1, 2, 3, 5]), "skip": rng.random() < 0.7}],
                          [{"op": "exp", "n": 1}], [],
                          [{"op": "block", "maa": True, "optsrc": True, "exact": False, "size": rng.choice([2, 3, 5])}]])
        skip = rng.choice([[{"op": "skiprem"}], [{"op": "skipmin", "n": rng.randint(1, 4)}, {"op": "skiprem"}],
                           [{"op": "min", "n": 1, "size": -1, "skip": True}, {"op": "skiprem"}]])
        tasks.append({"tid": f"r{i}", "tt": tt, "ops": pre + skip + [{"op": "allseeds"}], "meta": "partial + skip + all seeds"})
    tasks += gadget_tasks("k", [[{"op": "exp", "n": 1}, {"op": "exp", "n": 3}, {"op": "exp", "n": 4}, {"op": "skiprem"}, {"op": "allseeds"}]],
                          only=["xnor_latch", "xnor_2latch", "xnor_3latch"])
    tasks += gadget_tasks("g", [[{"op": "exp", "n": 1}, {"op": "skiprem"}, {"op": "allseeds"}],
                                [{"op": "skiprem"}, {"op": "allseeds"}],
                                [{"op": "bfs", "n": 1, "lvl": 0, "size": -1}, {"op": "skipmin", "n": 2}, {"op": "skiprem"}, {"op": "allseeds"}]])
    stub_q = [[{"op": "bfs", "n": 1, "lvl": 0, "size": -1}] + [{"op": o, "n": k} for k in (2, 3, 4, 5) for o in ("cand",)]
              + [{"op": "min", "n": 1, "size": -1, "skip": True}, {"op": "skiprem"}, {"op": "allseeds"}],
              [{"op": "exp", "n": 1}] + [{"op": "seeds", "n": k} for k in (2, 3, 4)] + [{"op": "skiprem"}, {"op": "allseeds"}],
              [{"op": "exp", "n": 1}] + [{"op": "cand", "n": k} for k in (2, 3, 4)] + [{"op": "skipmin", "n": 2}, {"op": "skipmin", "n": 3}, {"op": "skiprem"}, {"op": "allseeds"}]]
    tasks += feature_tasks("fq", stub_q)
    tasks += gadget_tasks("gq", stub_q)
    tasks += feature_tasks("f", [[{"op": "exp", "n": 1}, {"op": "skiprem"}, {"op": "allseeds"}],
                                 [{"op": "bfs", "n": 1, "lvl": 1, "size": -1}, {"op": "skiprem"}, {"op": "allseeds"}],
                                 [{"op": "exp", "n": 1}, {"op": "seeds", "n": 1}, {"op": "skipmin", "n": 2}, {"op": "skipmin", "n": 3}, {"op": "skiprem"}, {"op": "allseeds"}],
                                 [{"op": "min", "n": 1, "size": 3, "skip": True}, {"op": "skiprem"}, {"op": "allseeds"}]])
    # the same through the fully symbolic fallback (forced by a candidate limit of 1): skip nodes prune their search space
    # with what is known about other nodes there too
    import twin as _twin
    fb = [[{"op": "exp", "n": 1}, {"op": "skiprem"}, {"op": "allseeds", "fallback": True}],
          [{"op": "exp", "n": 1}, {"op": "skipmin", "n": 3}, {"op": "skipmin", "n": 2}, {"op": "allseeds", "fallback": True}],
          [{"op": "min", "n": 1, "size": -1, "skip": True}, {"op": "allseeds", "fallback": True}],
          [{"op": "exp", "n": 1}, {"op": "skiprem"}] + [{"op": "seeds", "n": k, "fallback": True} for k in (6, 5, 4, 3, 2, 1, 7, 8, 9)] + [{"op": "allseeds", "fallback": True}],
          [{"op": "bfs", "n": 1, "lvl": 1, "size": -1}, {"op": "skiprem"}, {"op": "allseeds", "fallback": True}]]
    for t in gadget_tasks("gfb", fb) + feature_tasks("ffb", fb, kinds=["maa", "modules"], max_n=6):
        t["cfg"] = dict(_twin.FORCE_FALLBACK)
        tasks.append(t)
    invs = ["Inv_SeedsAll", "Inv_WF", "Inv_HANG"]
    res.cov["rule"] = ("Expansion stopped early (BFS/DFS/minimal-space/block with size, level and stack limits), remaining nodes skipped "
                       "(skip_remaining, skip_to_minimal, skip_ignored), seeds requested for all nodes in id order; TLC checks every attractor is "
                       "reported at least once, every seed is in an attractor inside its node, and exactly once when the network has no "
                       "motif-avoidant attractor. Non-trivial: distinct histories that create at least one skip node.")

    def nt(tr):
        return any(n["skipped"] for n in tr["events"][-1]["post"]["nodes"])
    execute_and_validate(res, tasks, invs, "skip", nt)


CFG_GRID = [{"maxm": 100000, "candlim": c, "rsthr": t, "simbudget": b, "nfvsthr": f}
            for c in (0, 1, 2, 3, 100000) for t in (0, 1, 2, 1000) for b in (0, 1, 1000) for f in (0, 2000)]


def c08(res: Result):
    q = res.tier == Q
    rng = random.Random(res.seed + 8)
    recs = run_mc(res, "cand", ["exp", "skipmin", "cand"], 3, [], [1000], ["Inv_WF", "Inv_CacheFresh"], None)
    # the candidate pipeline itself (Candidates.tla): every NFVS, retained assignment, solver truncation, flip order and
    # simulation outcome, for every option combination and configuration value
    for mode in (["all2"] if q else ["all2", "file"]):
        wd = os.path.join(sdcheck.WORK, res.pid, "pipeline_" + mode)
        shutil.rmtree(wd, ignore_errors=True)
        os.makedirs(wd)
        cfgp = os.path.join(wd, "cand.cfg")
        tlc.write_cfg(cfgp, invariants=["TypeOK", "Inv_Covers", "Inv_Error", "Inv_Mechanism"], properties=["Termination"],
                      constants={"NetMode": f'"{mode}"', "Legacy": "FALSE",
                                 "CandLims": tlc.tla_set([0, 2, 100] if q or mode == "file" else [0, 1, 2, 3, 100]),
                                 "Thresholds": tlc.tla_set([0, 2, 100] if q or mode == "file" else [0, 1, 2, 100]),
                                 "Budgets": tlc.tla_set([2] if q or mode == "file" else [0, 2])})
        r = tlc.model_check("Candidates", cfgp, wd, env={"CATALOGUE": os.path.join(tlc.SPEC_DIR, "catalogue.ndjson")}, timeout=7200)
        res.cov["states"] += r["distinct"]
        res.cov["transitions"] += r["generated"]
        res.cov["mc_runs"].append({"name": "Candidates pipeline", "nets": mode, "distinct_states": r["distinct"],
                                   "properties": ["Inv_Covers", "Inv_Error", "Inv_Mechanism", "Termination"], "ok": r["ok"],
                                   "wall_s": round(r["wall_s"], 1)})
        if not r["ok"]:
            res.violations.append(f"{r['log']}#model:{','.join(r['violated'])}")
    tasks = []
    pool = gen.network_pool(rng, N(q, 700, 9000), [2, 2, 3, 3, 4, 4, 5] if q else [2, 3, 4, 4, 5, 5, 6])
    for i, tt in enumerate(pool):
        pre = rng.choice([[], [{"op": "exp", "n": 1}], [{"op": "bfs", "n": 1, "lvl": rng.choice([0, 1]), "size": -1}],
                          [{"op": "exp", "n": 1}, {"op": "skipmin", "n": 2}], [{"op": "skipmin", "n": 1}], [FULL_BFS]])
        qs = [{"op": "cand", "n": k, "greedy": rng.random() < 0.5, "sim": rng.random() < 0.5} for k in (1, 2, 3, 4, 5)]
        rng.shuffle(qs)
        cfg = rng.choice(CFG_GRID) if rng.random() < 0.7 else None
        t = {"tid": f"r{i}", "tt": tt, "ops": pre + qs, "meta": "candidates under option/config grid"}
        if cfg:
            t["cfg"] = cfg
        tasks.append(t)
    for gi, (g, o) in enumerate([(a, b) for a in (True, False) for b in (True, False)]):
        tasks += gadget_tasks(f"g{gi}", [[{"op": "cand", "n": 1, "greedy": g, "sim": o}],
                                         [{"op": "exp", "n": 1}, {"op": "cand", "n": 1, "greedy": g, "sim": o}, {"op": "cand", "n": 2, "greedy": g, "sim": o}]])
    # skip nodes below ancestors whose attractor data is already known (order matters for the skip rule)
    pats = []
    for g, o in [(True, True), (False, False), (True, False)]:
        pats.append([{"op": "exp", "n": 1}, {"op": "seeds", "n": 1}] + [{"op": "skipmin", "n": k} for k in (2, 3, 4)]
                    + [{"op": "cand", "n": k, "greedy": g, "sim": o} for k in (2, 3, 4, 1)])
        pats.append([{"op": "bfs", "n": 1, "lvl": 1, "size": -1}, {"op": "allseeds"}, {"op": "skiprem"}]
                    + [{"op": "cand", "n": k, "greedy": g, "sim": o} for k in (1, 2, 3, 4, 5, 6)])
        pats.append([{"op": "cand", "n": 1, "greedy": g, "sim": o}, {"op": "exp", "n": 1}]
                    + [{"op": "cand", "n": k, "greedy": g, "sim": o} for k in (1, 2, 3, 4)])
    tasks += feature_tasks("f", pats)
    tasks += gadget_tasks("h", pats)
    # simulation without the greedy ASP pass (several candidates reach the random walk) on (pseudo-)minimal nodes
    simpats = [[{"op": "cand", "n": 1, "greedy": False, "sim": True}],
               [FULL_BFS] + [{"op": "cand", "n": k, "greedy": False, "sim": True} for k in range(1, 9)]]
    tasks += feature_tasks("fs", simpats, kinds=["sync_escape", "multi_complex_in_min_trap", "complex_attr", "multi_attr_in_min_trap"], max_n=6)
    tasks += gadget_tasks("hs", simpats)
    invs = ["Inv_Covers", "Inv_HANG"]
    res.cov["rule"] = ("node_attractor_candidates on expanded, unexpanded and skipped nodes under all 4 option combinations and a grid of "
                       "configuration values (candidate limit and optimisation threshold in {0,1,2,3,default}, simulation budget {0,1,default}, "
                       "NFVS threshold {0,default}); every returned list must consist of full states inside the node that hit every attractor of "
                       "the node not inside a successor (TLC recomputes the attractors); otherwise the call must have raised and cached nothing. "
                       "Non-trivial: distinct cases where some node has >= 2 own attractors or a non-default configuration is in force.")

    def nt(tr):
        c = tr["cfg"]
        return c["candlim"] != 100000 or c["rsthr"] != 1000 or any(len(n["cand"]["v"]) >= 2 for n in tr["events"][-1]["post"]["nodes"])
    execute_and_validate(res, tasks, invs, "cand", nt)
    validate_pipes(res, "cand")


def c12(res: Result):
    q = res.tier == Q
    rng = random.Random(res.seed + 12)
    recs = run_mc(res, "sets", ["exp", "cand", "seeds", "sets", "reclaim"], 3, [], [1000], ["Inv_WF", "Inv_CacheFresh"], None)
    tasks = []
    pool = gen.network_pool(rng, N(q, 700, 9000), [2, 3, 3, 4, 4, 5] if q else [3, 4, 4, 5, 5, 6])
    for i, tt in enumerate(pool):
        pre = rng.choice([[], [{"op": "exp", "n": 1}], [FULL_BFS], [{"op": "bfs", "n": 1, "lvl": 0, "size": -1}]])
        qs = []
        for k in (1, 2, 3, 4):
            seq = rng.choice([["sets"], ["seeds", "sets"], ["cand", "seeds", "sets"], ["seeds", "reclaim", "sets"],
                              ["cand", "reclaim", "sets"], ["sets", "pickle", "sets"]])
            for o in seq:
                qs.append({"op": o, "n": k, "fallback": False})
        t = {"tid": f"r{i}", "tt": tt, "ops": pre + qs, "meta": "sets in various orders"}
        tasks.append(t)
        # unminimised candidates first (several candidates per attractor reach the symbolic elimination), then seeds and sets
        if i % 4 == 1:
            tasks.append({"tid": f"u{i}", "tt": tt, "meta": "raw candidates, seeds, sets",
                          "ops": pre + [{"op": o, "n": k, "greedy": False, "sim": False, "fallback": False}
                                        for k in (1, 2, 3) for o in ("cand", "seeds", "sets")]})
        # the symbolic fallback: force the candidate pipeline to fail with a tiny candidate limit
        if i % 3 == 0:
            tasks.append({"tid": f"f{i}", "tt": tt, "cfg": {"maxm": 100000, "candlim": rng.choice([0, 1]), "rsthr": 1000, "simbudget": 1000, "nfvsthr": 2000},
                          "ops": pre + [{"op": "seeds", "n": k, "fallback": True} for k in (1, 2, 3)] + [{"op": "sets", "n": k} for k in (1, 2, 3)],
                          "meta": "symbolic fallback (candidate limit forces RuntimeError)"})
    tasks += feature_tasks("f", [[{"op": "sets", "n": 1}], [FULL_BFS] + [{"op": "sets", "n": k} for k in range(1, 9)],
                                 [{"op": "exp", "n": 1}] + [{"op": o, "n": k} for k in (1, 2, 3) for o in ("seeds", "reclaim", "sets")]])
    rawq = [{"op": o, "n": 1, "greedy": False, "sim": False, "fallback": False} for o in ("cand", "seeds", "sets")]
    tasks += feature_tasks("fu", [rawq, [{"op": "exp", "n": 1}] + rawq], kinds=["complex_attr", "multi_complex_in_min_trap", "maa", "multi_attr_in_min_trap", "sync_escape"], max_n=6)
    tasks += gadget_tasks("gu", [rawq, [{"op": "exp", "n": 1}] + rawq])
    invs = ["Inv_SetsFresh", "Inv_CacheFresh", "Inv_HANG"]
    res.cov["rule"] = ("Attractor sets requested before/after seeds and candidates (also unminimised candidates on unexpanded nodes), after reclamation and pickling, on expanded and unexpanded "
                       "nodes; and seeds via the symbolic fallback (forced by a tiny candidate limit). TLC checks that set i is exactly the "
                       "attractor containing seed i, over all variables, and that fallback seeds are exactly the node's own attractors. Twin runs "
                       "(relation 'fallback'): one history with the default method and with every seed computed by the forced fallback, on "
                       "expanded, unexpanded and skip nodes in several query orders: the same attractor sets node by node. "
                       "Non-trivial: distinct cases with a complex (non-singleton) attractor set or a fallback run.")

    def nt(tr):
        if any(e["op"] == "seeds" and e["fallback"] and not e["raised"] for e in tr["events"]):
            return True
        return any(len(s) > 1 for n in tr["events"][-1]["post"]["nodes"] for s in n["sets"]["v"])
    execute_and_validate(res, tasks, invs, "sets", nt)
    # "the symbolic fallback yields the same attractors as the default method": twin runs of one history, node by node,
    # also on skip nodes (whose search space depends on which other nodes are already known to be empty: query orders vary)
    tw = []
    pres = [[], [{"op": "exp", "n": 1}], [FULL_BFS],
            [{"op": "exp", "n": 1}, {"op": "skipmin", "n": 2}, {"op": "skipmin", "n": 3}],
            [{"op": "exp", "n": 1}, {"op": "skiprem"}],
            [{"op": "bfs", "n": 1, "lvl": 1, "size": -1}, {"op": "skiprem"}],
            [{"op": "min", "n": 1, "size": -1, "skip": True}],
            [{"op": "exp", "n": 1}, {"op": "exp", "n": 2}, {"op": "skiprem"}]]
    orders = [[1, 2, 3, 4, 5, 6, 7, 8], [8, 7, 6, 5, 4, 3, 2, 1], [2, 3, 1, 4, 5, 6, 7, 8], [3, 2, 4, 1, 5, 6]]
    nets = [(k, tt) for k, tt in gen.gadget_networks().items() if len(tt) <= 6]
    nets += [(f"r{i}", tt) for i, tt in enumerate(gen.network_pool(rng, N(q, 40, 300), [3, 4, 4, 5]))]
    import features
    nets += [(nm, tt) for nm, tt in features.feature_networks(["maa"], 6)][:N(q, 10, 60)]
    for name, tt in nets:
        for pi, pre in enumerate(pres):
            if q and name.startswith("r") and pi not in (1, 3, 4):
                continue
            tw.append({"kind": "fallback", "tid": f"fb{name}_{pi}", "tt": tt, "pre": pre, "order": rng.choice(orders) if name.startswith("r") else orders[pi % len(orders)]})
    run_twin(res, tw, ["Inv_ATTR"], ["Inv_WF", "Inv_CacheFresh", "Inv_SetsFresh"], "fallback", lambda t: t.get("fallback_runs", 0) >= 1)


def c15(res: Result):
    q = res.tier == Q
    rng = random.Random(res.seed + 15)
    ops = ["exp", "bfs", "dfs", "min", "tgt", "aseeds", "skipmin", "skiprem", "block"]
    invs_mc = ["Inv_WF", "Inv_PartialFaithful", "Inv_CacheFresh", "Inv_RetFalse", "Inv_MinExact", "Inv_FullExact"]
    if q:
        recs = run_mc(res, "limits", ops, 2, [0, 2], [1, 1000], invs_mc, 1, failats=[0, 2])
    else:
        recs = run_mc(res, "limits", ops, 2, [0, 1, 2, 3], [0, 1, 2, 1000], invs_mc, 1, failats=[0, 1, 2, 3])
    interesting = [r for r in recs if r["failat"] or r["maxm"] != 1000 or any(isinstance(x, int) and x >= 0 for h in r["hist"] for x in h[2:])]
    tasks = tasks_from_emitted(interesting, rng, N(q, 900, 20000), "m")
    # random networks: limited calls under small max_motifs_per_node, then the same call relaxed
    pool = gen.network_pool(rng, N(q, 300, 5000), [3, 3, 4, 4, 5] if q else [3, 4, 4, 5, 5, 6])
    for i, tt in enumerate(pool):
        cfg = {"maxm": rng.choice([0, 1, 2, 3, 100000, 100000]), "candlim": rng.choice([0, 1, 2, 100000]), "rsthr": 1000,
               "simbudget": 1000, "nfvsthr": 2000}
        tasks.append({"tid": f"r{i}", "tt": tt, "cfg": cfg, "hseed": rng.randrange(1 << 30),
                      "kinds": gen.PLAIN_KINDS + ["skipmin", "skiprem", "minskip", "seeds", "cand", "sets", "block", "block"], "steps": rng.randint(2, 5),
                      "tail": [FULL_BFS], "meta": "limits + resource-limit errors"})
    # size-limited block expansion on networks with source variables (also sources that appear after percolation)
    srcnets = [tt for tt in gen.network_pool(rng, N(q, 250, 4000), [3, 4, 4, 5], ["modular"])
               if any(all(tt[i][s] == ((s >> i) & 1) for s in range(1 << len(tt))) for i in range(len(tt)))]
    import features as _features
    srcnets += [tt for _, tt in _features.feature_networks(["new_source", "modules"], 6)]
    for i, tt in enumerate(srcnets):
        for z in (rng.choice([1, 2, 3]), rng.choice([4, 5, 6, 8])):
            tasks.append({"tid": f"s{i}_{z}", "tt": tt, "meta": "size-limited block expansion with sources",
                          "ops": [{"op": "block", "maa": rng.random() < 0.5, "optsrc": True, "exact": False, "size": z},
                                  {"op": "block", "maa": True, "optsrc": True, "exact": False, "size": -1}]})
    # limited calls on pre-expanded deep diagrams (a limit may cut the traversal at nodes that are already expanded)
    pats = [[{"op": "bfs", "n": 1, "lvl": lv, "size": -1}, {"op": "dfs", "n": 1, "stk": st, "size": -1}] for lv in (1, 2) for st in (0, 1)]
    pats += [[{"op": "dfs", "n": 1, "stk": st, "size": -1}, {"op": "bfs", "n": 1, "lvl": lv, "size": -1}] for lv in (0, 1) for st in (1, 2)]
    pats += [[{"op": "bfs", "n": 1, "lvl": 1, "size": -1}, {"op": "bfs", "n": 2, "lvl": 0, "size": z}, {"op": "dfs", "n": 1, "stk": -1, "size": z}] for z in (4, 7)]
    tasks += feature_tasks("fl", pats, kinds=["deep", "modules", "shortcut2"], max_n=5)
    tasks += gadget_tasks("gl", pats, only=["xnor_2latch", "nscc_latch", "maa_inner_latch", "doc", "c20"])
    # block expansion under a candidate limit that makes the clean-block search fail: a failed search must not be read as "clean"
    # (nothing may be cached for the node), whatever is asked afterwards
    tight = {"maxm": 100000, "candlim": 1, "rsthr": 1, "simbudget": 1000, "nfvsthr": 2000}
    tightpats = [[{"op": "block", "maa": True, "optsrc": True, "exact": False, "size": -1}],
                 [{"op": "block", "maa": True, "optsrc": True, "exact": True, "size": -1}],
                 [{"op": "scc", "maa": True}]]
    for t in gadget_tasks("gt", tightpats) + feature_tasks("ft", tightpats, kinds=["maa", "complex_attr", "multi_attr_in_min_trap"], max_n=5):
        t["cfg"] = dict(tight)
        tasks.append(t)
    # fault enumeration: every solver call of the last call fails once
    fpool = gen.network_pool(rng, N(q, 100, 2000), [3, 4, 4, 5])
    for i, tt in enumerate(fpool):
        pre = rng.choice([[], [{"op": "exp", "n": 1}], [{"op": "bfs", "n": 1, "lvl": 0, "size": -1}]])
        last = rng.choice([FULL_BFS, FULL_DFS, {"op": "min", "n": 1, "size": -1, "skip": rng.random() < 0.5},
                           {"op": "aseeds", "size": -1}, {"op": "tgt", "target": [rng.choice([0, 1, 2]) for _ in tt], "size": -1},
                           {"op": "skiprem"}, {"op": "seeds", "n": 1}, {"op": "sets", "n": 1}])
        if last["op"] == "tgt" and all(x == 2 for x in last["target"]):
            last["target"][0] = 1
        tasks.append({"tid": f"f{i}", "tt": tt, "ops": pre + [last], "faults": True, "meta": "fault enumeration"})
    invs = ["Inv_WF", "Inv_PartialFaithful", "Inv_CacheFresh", "Inv_RetFalse", "Inv_MinExact", "Inv_FullExact", "Inv_TrueMeansClosed", "Inv_HANG"]
    res.cov["rule"] = ("(a) every abstract state of the TLC model under size/level/stack limits 0..3, max_motifs_per_node in {0,1,2,default} and the "
                       "k-th solver call failing (k<=3) yields a history replayed in the library; (b) random histories under small resource limits "
                       "followed by a full BFS; (c) fault enumeration: for each solver call k of a call, a run in which that call raises, followed by "
                       "the same call without fault (resume). After every event TLC checks the diagram is a valid partial diagram with fresh caches, "
                       "True is returned only when the contract of the call is complete (TrueMeansClosed), a size-limited False leaves a stub (RetFalse); the exact return value predicted by the model is a mechanism diagnostic. "
                       "Non-trivial: distinct histories containing a call that raised or returned False.")

    def nt(tr):
        return any(e["raised"] or e["ret"] == "false" for e in tr["events"])
    execute_and_validate(res, tasks, invs, "limits", nt)
    # resume: interrupted call + the same call with relaxed limits = the call that was never interrupted
    rt = []
    rpool = gen.network_pool(rng, N(q, 160, 3000), [3, 4, 4, 5], ["sparse", "modular", "mixed"])
    rpool += [tt for _, tt in gen.gadget_networks().items() if len(tt) <= 5]
    for i, tt in enumerate(rpool):
        n = len(tt)
        kind = rng.choice(["bfs", "dfs", "min", "aseeds", "tgt", "seeds"])
        pre = rng.choice([[], [], [{"op": "exp", "n": 1}], [{"op": "bfs", "n": 1, "lvl": 0, "size": -1}]])
        z = rng.choice([1, 2, 3, 4, 6])
        op = {"bfs": {"op": "bfs", "n": 1, "lvl": rng.choice([-1, 0, 1]), "size": rng.choice([-1, z])},
              "dfs": {"op": "dfs", "n": 1, "stk": rng.choice([-1, 0, 1, 2]), "size": rng.choice([-1, z])},
              "min": {"op": "min", "n": 1, "size": z, "skip": False},
              "aseeds": {"op": "aseeds", "size": z},
              "tgt": {"op": "tgt", "target": [rng.choice([0, 1, 2]) for _ in range(n)], "size": z},
              "seeds": {"op": "seeds", "n": 1, "fallback": False}}[kind]
        if kind == "tgt" and all(x == 2 for x in op["target"]):
            op["target"][0] = 1
        t = {"kind": "resume", "tid": f"rs{i}", "tt": tt, "pre": pre, "op": op}
        mode = rng.random()
        if mode < 0.35:
            op["fail_at"] = rng.choice([1, 1, 2, 3])                 # the k-th solver call fails
        elif mode < 0.6 or kind == "seeds":
            # a configured resource limit fires in the interrupted run, the relaxed run has the default configuration
            t["cfg"] = {"maxm": rng.choice([1, 2, 3]) if kind != "seeds" else 100000, "candlim": rng.choice([0, 1, 2]) if kind == "seeds" else 100000,
                        "rsthr": 1000, "simbudget": 1000, "nfvsthr": 2000}
        rt.append(t)
    run_twin(res, rt, ["Inv_ISO", "Inv_OUT"], [], "resume", lambda t: len(t["b"][-1]["post"]["nodes"]) >= 3)


# ------------------------------------------------------------------------------------------------
# pure-function engine (PureTrace.tla) and stateless theorems (MC_Theorems.tla)
# ------------------------------------------------------------------------------------------------
def run_theorems(res: Result, invariants: list[str], netmode: str = "all2"):
    if netmode == "all2" and res.tier != Q:
        run_theorems(res, invariants, "file")       # thorough: also the 247 three-variable networks of the catalogue
    wd = os.path.join(sdcheck.WORK, res.pid, "theorems_" + netmode)
    shutil.rmtree(wd, ignore_errors=True)
    os.makedirs(wd)
    cfg = os.path.join(wd, "th.cfg")
    tlc.write_cfg(cfg, invariants=invariants, constants={"NetMode": f'"{netmode}"'})
    # thorough: 2 863 networks with 3-5 variables (gadgets, feature networks, random); quick would use the small catalogue
    cat = "catalogue_theorems.ndjson" if res.tier != Q else "catalogue.ndjson"
    r = tlc.model_check("MC_Theorems", cfg, wd, env={"CATALOGUE": os.path.join(tlc.SPEC_DIR, cat)})
    res.cov["states"] += r["distinct"]
    res.cov["transitions"] += r["generated"]
    res.cov["mc_runs"].append({"name": "theorems", "nets": netmode, "invariants": invariants, "distinct_states": r["distinct"],
                               "ok": r["ok"], "wall_s": round(r["wall_s"], 1)})
    if not r["ok"]:
        for inv in r["violated"]:
            res.violations.append(f"{r['log']}#model:{inv}")


def run_pure(res: Result, tasks: list[dict], invariants: list[str], label: str, nontrivial_event, with_raised: bool = True):
    import pure
    wd = os.path.join(sdcheck.WORK, res.pid, "pure_" + label)
    shutil.rmtree(wd, ignore_errors=True)
    os.makedirs(wd)
    tf = os.path.join(wd, "traces.ndjson")
    pure.record_many(tasks, tf)
    out = tlc.validate_traces(tf, "PureTrace", invariants + (["Inv_RAISED"] if with_raised else []) + ["Inv_UNKNOWN"], wd)
    traces = {}
    for ln in open(tf):
        tr = json.loads(ln)
        traces[tr["tid"]] = tr
    res.cov["traces_validated_against_impl"] += out["traces"]
    res.cov["states"] += out["states"]            # TLC states of the trace validation runs
    res.cov["transitions"] += out["generated"]
    res.cov["trace_validation_states"] = res.cov.get("trace_validation_states", 0) + out["states"]
    seen = set()
    for tr in traces.values():
        for e in tr["events"]:
            res.cov["evaluations"] += 1
            key = json.dumps([tr["net"]["f"], {k: v for k, v in e.items() if k not in ("res", "res1", "res2", "pn", "gtt", "ldoi", "drv")}])
            if key not in seen:
                seen.add(key)
                if nontrivial_event(e):
                    res.cov["distinct_nontrivial"] += 1
    for tr in list(traces.values())[:2]:
        res.cov["samples"].append({"tid": tr["tid"], "net": tr["net"], "events": tr["events"][:3]})
    by = {}
    for (inv, tid, l, op) in out["violations"]:
        by.setdefault(tid, []).append((inv, l, op))
    for k, (tid, vs) in enumerate(sorted(by.items())):
        if k >= 25:
            break
        vd = os.path.join(sdcheck.WORK, res.pid, "violations", f"{label}_{tid}")
        os.makedirs(vd, exist_ok=True)
        tr = traces[tid]
        json.dump(tr, open(os.path.join(vd, "trace.json"), "w"))
        json.dump({"property": res.pid, "engine": "pure",
                   "failing": [{"invariant": i, "event": l, "op": o, "call": tr["events"][l - 1]} for (i, l, o) in vs],
                   "net": tr["net"]}, open(os.path.join(vd, "verdict.json"), "w"), indent=1)
        res.violations.append(vd)


def pure_tasks(rng, q, kinds, per_kind, sizes, count, exhaustive2=True, prefix="p"):
    tasks = []
    if exhaustive2:
        for i, tt in enumerate(bn.all_networks(2)):
            tasks.append({"tid": f"{prefix}a{i}", "tt": tt, "seed": rng.randrange(1 << 30), "kinds": kinds,
                          "per_kind": per_kind, "exhaustive_small": True})
    for i, tt in enumerate(gen.network_pool(rng, count, sizes)):
        tasks.append({"tid": f"{prefix}r{i}", "tt": tt, "seed": rng.randrange(1 << 30), "kinds": kinds,
                      "per_kind": per_kind, "exhaustive_small": q is False})
    for name, tt in gen.gadget_networks().items():
        if len(tt) <= 6:
            tasks.append({"tid": f"{prefix}g{name}", "tt": tt, "seed": rng.randrange(1 << 30), "kinds": kinds,
                          "per_kind": per_kind, "exhaustive_small": True})
    return tasks


def c09(res: Result):
    q = res.tier == Q
    rng = random.Random(res.seed + 9)
    run_theorems(res, ["T_Rev", "T_Succ", "T_MinTrap"])
    tasks = pure_tasks(rng, q, ["trappist", "reduced"] + ([] if q else ["trappist_grid"]), 12 if q else 60,
                       [3, 3, 4, 4, 5] if q else [3, 4, 5, 5, 6], N(q, 400, 4000))
    # the solver on nets derived from a shared parent net (restrict_petrinet_to_subspace after earlier solver calls on the parent)
    for i, tt in enumerate(gen.network_pool(rng, N(q, 300, 3000), [3, 3, 4, 4, 5])):
        tasks.append({"tid": f"d{i}", "tt": tt, "seed": rng.randrange(1 << 30), "kinds": [], "per_kind": 6, "restricted": True})
    for name, tt in gen.gadget_networks().items():
        if len(tt) <= 6:
            for j in range(3):
                tasks.append({"tid": f"dg{name}_{j}", "tt": tt, "seed": rng.randrange(1 << 30), "kinds": [], "per_kind": 6, "restricted": True})
    res.cov["rule"] = ("trappist (min / max / fix, both time directions, enclosing subspace, 0-3 avoided subspaces, source-variable lists "
                       "auto/none/explicit, solution limits none/0/1/2/3, Petri-net or network input) and compute_fixed_point_reduced_STG "
                       "(random retained sets, enclosing and avoided subspaces incl. the empty one, limits) on all 256 two-variable networks (thorough: "
                       "plus the full grid enclosing subspace x single avoided subspace x problem x direction, and retained set x enclosing subspace) and "
                       "random 3-6 variable networks; the same solver calls on nets obtained by restricting a shared, already used parent net to a random "
                       "subspace (judged against the network whose fixed variables are constants: sources that appear or disappear through the restriction); "
                       "TLC computes the requested set from the enumerated trap spaces of the network / its time "
                       "reversal and compares (exact set without limit; duplicate-free subset of size min(count, limit) with limit). "
                       "Non-trivial: distinct calls whose result has >= 2 elements or that use avoid / reverse time / limits.")
    run_pure(res, tasks, ["Inv_TRAPPIST", "Inv_REDUCED"], "solver",
             lambda e: len(e["res"]) >= 2 or e["rev"] or e["avoid"] or e["limit"] >= 0)


def c10(res: Result):
    q = res.tier == Q
    rng = random.Random(res.seed + 10)
    tasks = pure_tasks(rng, q, ["pn", "restrict", "percnet", "sdpn"], 8 if q else 40, [3, 3, 4, 4, 5] if q else [3, 4, 5, 5, 6], N(q, 400, 4000))
    res.cov["rule"] = ("network_to_petrinet, restrict_petrinet_to_subspace (also applied twice, as node_percolated_petri_net does; and the nets "
                       "SuccessionDiagram.node_percolated_petri_net returns for child nodes with and without a cached parent net) and "
                       "percolate_network (with/without constant removal) on all two-variable and random 3-6 variable networks; TLC checks "
                       "for every state of the subspace and every remaining variable that an up/down transition is enabled iff the update "
                       "function disagrees with the current value in that direction, and that the variables are exactly those left free. "
                       "Repository models (5-321 variables): per update function over its support (<= 9 variables quick / 12 thorough; larger supports are "
                       "listed as not covered): the transitions of the variable in the model's Petri net, in the net restricted to percolated random "
                       "subspaces, and the function in the percolated network are compared with the function's truth table computed from the bnet "
                       "text by the harness parser; percolation is checked locally (fixed iff the function is constant on the values fixed around it). "
                       "Non-trivial: distinct calls on a proper subspace or with >= 4 transitions; every model function checked.")
    run_pure(res, tasks, ["Inv_PN", "Inv_RESTRICT", "Inv_PERCNET"], "pn",
             lambda e: len(e["pn"]) >= 4 or any(x != 2 for x in e["sp"]))
    run_models(res, q, rng, ["Inv_PN", "Inv_PERCNET", "Inv_PERC"])


def run_models(res: Result, q: bool, rng, invariants):
    """repository models, one trace per update function over its support (locality)"""
    import glob
    import pure
    repo = os.environ.get("VERIF_REPO") or "/repo"
    files = sorted(glob.glob(os.path.join(repo, "models", "bbm-bnet-inputs-true", "*.bnet")))
    if q:
        files = rng.sample(files, 24)
    tasks = [{"path": f, "seed": rng.randrange(1 << 30), "max_local": 9 if q else 12, "subspaces": 2 if q else 4} for f in files]
    wd = os.path.join(sdcheck.WORK, res.pid, "models")
    shutil.rmtree(wd, ignore_errors=True)
    os.makedirs(wd)
    # synthetic models with large update functions (decision diagrams with big shared sub-diagrams): the implicant cover of
    # such functions takes code paths the small functions never reach
    for j, text in enumerate(gen.big_function_models(rng, N(q, 12, 60), 14)):
        path = os.path.join(wd, f"b{j:02d}.bnet")      # (trace ids use the first three characters of the file name)
        open(path, "w").write(text)
        tasks.append({"path": path, "seed": rng.randrange(1 << 30), "max_local": 14, "subspaces": 1 if q else 2})
        files.append(path)
    tf = os.path.join(wd, "traces.ndjson")
    info = pure.record_models(tasks, tf)
    out = tlc.validate_traces(tf, "PureTrace", invariants + ["Inv_RAISED", "Inv_UNKNOWN"], wd)
    res.cov["traces_validated_against_impl"] += out["traces"]
    res.cov["states"] += out["states"]
    res.cov["transitions"] += out["generated"]
    res.cov["model_files"] = len(files)
    res.cov["model_functions_checked"] = info["traces"]
    res.cov["model_functions_not_covered"] = [x["skipped"] for x in info["skipped"]][:80]
    res.cov["model_functions_not_covered_count"] = len(info["skipped"])
    res.cov["evaluations"] += info["traces"]
    res.cov["distinct_nontrivial"] += info["traces"]
    by = {}
    for (inv, tid, l, op) in out["violations"]:
        by.setdefault(tid, []).append((inv, l, op))
    if by:
        traces = {}
        for ln in open(tf):
            t = json.loads(ln)
            if t["tid"] in by:
                traces[t["tid"]] = t
        for k, (tid, vs) in enumerate(sorted(by.items())):
            if k >= 15:
                break
            vd = os.path.join(sdcheck.WORK, res.pid, "violations", "model_" + tid.replace(":", "_").replace(".", "_"))
            os.makedirs(vd, exist_ok=True)
            json.dump(traces[tid], open(os.path.join(vd, "trace.json"), "w"))
            json.dump({"property": res.pid, "engine": "pure-models", "function": tid,
                       "failing": [{"invariant": i, "event": l, "op": o} for (i, l, o) in vs]},
                      open(os.path.join(vd, "verdict.json"), "w"), indent=1)
            res.violations.append(vd)


def c11(res: Result):
    q = res.tier == Q
    rng = random.Random(res.seed + 11)
    run_theorems(res, ["T_Perc"])
    tasks = pure_tasks(rng, q, ["perc", "strict", "conflicts", "ldoi", "drivers"], 12 if q else 40,
                       [3, 3, 4, 4, 5] if q else [3, 4, 5, 5, 6], N(q, 400, 4000))
    res.cov["rule"] = ("percolate_space, percolate_space_strict, percolation_conflicts, find_single_node_LDOIs and find_single_drivers on every "
                       "subspace (trap space or not, consistent or conflicting) of all two-variable networks and gadgets, and random subspaces of "
                       "random 3-6 variable networks; TLC computes the least fixed point of value propagation (given values kept) from the truth "
                       "tables and compares (driver queries also with a shared, pre-computed LDOI table, which must still be the LDOI table afterwards); idempotence and trap preservation are checked on every result and as theorems on all subspaces of "
                       "all two-variable networks. Non-trivial: distinct calls where propagation fixes at least one further variable or the space conflicts.")
    run_pure(res, tasks, ["Inv_PERC", "Inv_PERCLAW", "Inv_STRICT", "Inv_CONFLICTS", "Inv_LDOI", "Inv_DRIVERS"], "perc",
             lambda e: (e["k"] in ("perc", "strict") and sum(1 for x in e["res1"] if x != 2) > 0 and e["res1"] != e["sp"]) or bool(e["res2"]) or e["k"] in ("ldoi",))


def run_control(res: Result, tasks, invariants, label, nontrivial_event):
    import control
    wd = os.path.join(sdcheck.WORK, res.pid, "ctl_" + label)
    shutil.rmtree(wd, ignore_errors=True)
    os.makedirs(wd)
    tf = os.path.join(wd, "traces.ndjson")
    control.record_many(tasks, tf)
    out = tlc.validate_traces(tf, "ControlTrace", invariants + ["Inv_RAISED"], wd)
    traces = {}
    for ln in open(tf):
        tr = json.loads(ln)
        traces[tr["tid"]] = tr
    res.cov["traces_validated_against_impl"] += out["traces"]
    res.cov["states"] += out["states"]            # TLC states of the trace validation runs
    res.cov["transitions"] += out["generated"]
    res.cov["trace_validation_states"] = res.cov.get("trace_validation_states", 0) + out["states"]
    seen = set()
    for tr in traces.values():
        for e in tr["events"]:
            res.cov["evaluations"] += 1
            key = json.dumps([tr["net"]["f"], e["target"], e["strategy"], e["bound"], e["forbidden"], e["sonly"], e["skipff"], e["hist"], e.get("maxm", 0)])
            if key not in seen:
                seen.add(key)
                if nontrivial_event(e):
                    res.cov["distinct_nontrivial"] += 1
    for tr in list(traces.values())[:2]:
        res.cov["samples"].append({"tid": tr["tid"], "net": tr["net"], "events": tr["events"][:2]})
    by = {}
    for (inv, tid, l, op) in out["violations"]:
        by.setdefault(tid, []).append((inv, l, op))
    for k, (tid, vs) in enumerate(sorted(by.items())):
        if k >= 25:
            break
        vd = os.path.join(sdcheck.WORK, res.pid, "violations", f"{label}_{tid}")
        os.makedirs(vd, exist_ok=True)
        tr = traces[tid]
        json.dump(tr, open(os.path.join(vd, "trace.json"), "w"))
        json.dump({"property": res.pid, "engine": "control",
                   "failing": [{"invariant": i, "event": l, "call": tr["events"][l - 1]} for (i, l, o) in vs],
                   "net": tr["net"]}, open(os.path.join(vd, "verdict.json"), "w"), indent=1)
        res.violations.append(vd)


def run_control_theorems(res: Result, invariants: list[str], mutations: dict[str, list[str]]):
    """
    MC_Control.tla: the control design (Control.tla, the operators ControlTrace compares the library with) is sound and
    complete for every network of the family and every query; `mutations` (definition overrides -> invariants that must
    then fail) show the theorems are not vacuous.
    """
    q = res.tier == Q
    runs = [("all2", "BoundsFull", 1, None, [])]
    runs.append(("file", "BoundsQuick" if q else "BoundsFull", 0 if q else 1, "catalogue.ndjson", []))
    if not q:
        runs.append(("file", "BoundsQuick", 0, "catalogue_control4.ndjson", []))      # thorough: 150 four-variable networks x 80 targets
    for mut, must in mutations.items():
        runs.append(("all2", "BoundsQuick", 0, None, [mut] + must))
    for k, (netmode, bounds, maxforb, cat, mut) in enumerate(runs):
        wd = os.path.join(sdcheck.WORK, res.pid, f"ctl_theorems_{k}")
        shutil.rmtree(wd, ignore_errors=True)
        os.makedirs(wd)
        cfg = os.path.join(wd, "mc.cfg")
        tlc.write_cfg(cfg, invariants=invariants, constants={"NetMode": f'"{netmode}"', "Bounds <- " + bounds: None, "MaxForb": maxforb,
                                                             **({mut[0] + " <- MutFalse": None} if mut else {})})
        env = {"CATALOGUE": os.path.join(tlc.SPEC_DIR, cat)} if cat else {}
        r = tlc.model_check("MC_Control", cfg, wd, env=env, extra=["-continue"] if mut else [])
        res.cov["states"] += r["distinct"]
        res.cov["transitions"] += r["generated"]
        entry = {"name": "control_theorems", "nets": cat or netmode, "bounds": bounds, "forbidden_subsets_of": maxforb,
                 "invariants": invariants, "distinct_states": r["distinct"], "ok": r["ok"], "wall_s": round(r["wall_s"], 1)}
        if mut:
            entry["mutation"] = mut[0] + " <- FALSE"
            entry["violated_as_required"] = sorted(set(r["violated"]))
            entry["ok"] = bool(set(mut[1:]) & set(r["violated"]))      # for a mutation run: the mutation was refuted
            if not set(mut[1:]) & set(r["violated"]):
                raise tlc.TLCFailure(f"mutation {mut[0]} of the control design is not detected by {mut[1:]}: the theorem would be vacuous")
        elif not r["ok"]:
            for inv in r["violated"]:
                res.violations.append(f"{r['log']}#model:{inv}")
        res.cov["mc_runs"].append(entry)


def control_tasks(rng, q, with_history, count, sizes, calls):
    tasks = []
    nets = list(bn.all_networks(2))
    for i, tt in enumerate(nets if not q else rng.sample(nets, 96)):
        tasks.append({"tid": f"a{i}", "tt": tt, "seed": rng.randrange(1 << 30), "calls": calls, "with_history": with_history})
    for i, tt in enumerate(gen.network_pool(rng, count, sizes, ["mixed", "sparse", "modular", "modular"])):
        tasks.append({"tid": f"r{i}", "tt": tt, "seed": rng.randrange(1 << 30), "calls": calls, "with_history": with_history})
    for name, tt in gen.gadget_networks().items():
        if len(tt) <= 4:
            tasks.append({"tid": f"g{name}", "tt": tt, "seed": rng.randrange(1 << 30), "calls": calls * 4, "with_history": with_history})
        if len(tt) <= 5:
            tasks.append({"tid": f"x{name}", "tt": tt, "seed": 0, "calls": 0, "with_history": False, "grid": True})
    return tasks


def c06(res: Result):
    q = res.tier == Q
    rng = random.Random(res.seed + 6)
    tasks = control_tasks(rng, q, True, N(q, 300, 4000), [3, 3, 4, 4] if q else [3, 4, 4, 5], 6 if q else 12)
    res.cov["rule"] = ("succession_control on fresh diagrams and on diagrams already partially expanded / skipped / shortcut by random "
                       "strategies, random non-empty targets (trap spaces or not), both strategies, driver bounds none/0/1/2/N, forbidden sets, "
                       "one call in six under max_motifs_per_node 1..4 (the library refuses with RuntimeError or answers as without the limit), "
                       "skip_feedforward on/off. For every intervention reported successful TLC recomputes: the cumulative spaces are nested trap "
                       "spaces, each listed override's LDOI contains the step's motif, and in the overridden network every attractor reachable "
                       "from the previous trap space has the motif's values; the last space meets the target and all minimal trap spaces inside "
                       "it are inside the target. Non-trivial: distinct calls that return at least one successful intervention with >= 1 step.")
    run_control_theorems(res, ["T_C06", "T_Reach"], {"HotFull": ["T_C06"], "DriverContains": ["T_C06"]})
    run_control(res, tasks, ["Inv_C06", "Inv_FLAG"], "forces", lambda e: any(x["ok"] and x["succ"] for x in e["res"]))


def c07(res: Result):
    q = res.tier == Q
    rng = random.Random(res.seed + 7)
    tasks = control_tasks(rng, q, False, N(q, 500, 5000), [3, 3, 4, 4] if q else [3, 4, 4, 5], 10 if q else 16)
    res.cov["rule"] = ("succession_control on fresh diagrams (random non-empty targets, both strategies, bounds none/0/1/2/N, forbidden sets, "
                       "successful_only on/off); TLC builds the expected answer from the full succession diagram of the truth tables: "
                       "target-directed sub-diagram, end nodes, all root-to-end paths x all motifs per edge, and per step all inclusion-minimal "
                       "driver variable sets (every forcing valuation) within bound and outside the forbidden set; the returned list must equal it "
                       "as a set, with each succession once and the unsuccessful flag exactly when a step has no override. "
                       "Non-trivial: distinct calls whose expected answer has at least one non-empty succession.")
    run_control_theorems(res, ["T_Reach", "T_Cover", "T_Min", "T_Internal"], {"HotFull": ["T_Reach", "T_Cover"]})
    run_control(res, tasks, ["Inv_C07", "Inv_FLAG"], "exact", lambda e: any(x["succ"] for x in e["res"]))


def c13(res: Result):
    q = res.tier == Q
    rng = random.Random(res.seed + 13)
    # (1) liveness of the attractor test under every answer of the size oracle
    for mode in (["all2"] if q else ["all2", "file"]):
        wd = os.path.join(sdcheck.WORK, res.pid, "at_" + mode)
        shutil.rmtree(wd, ignore_errors=True)
        os.makedirs(wd)
        cfg = os.path.join(wd, "at.cfg")
        tlc.write_cfg(cfg, invariants=["TypeOK", "Contract", "Sound"], properties=["Termination"],
                      constants={"NetMode": f'"{mode}"', "Force": "TRUE"})
        r = tlc.model_check("AttractorTest", cfg, wd)
        res.cov["states"] += r["distinct"]
        res.cov["transitions"] += r["generated"]
        res.cov["mc_runs"].append({"name": "AttractorTest liveness", "nets": mode, "distinct_states": r["distinct"],
                                   "properties": ["Termination", "Contract", "Sound"], "ok": r["ok"], "wall_s": round(r["wall_s"], 1)})
        if not r["ok"]:
            res.violations.append(f"{r['log']}#model:{','.join(r['violated'])}")
    # (2) liveness of the expansion drivers: every started call returns (weak fairness on micro-steps)
    wd = os.path.join(sdcheck.WORK, res.pid, "drivers")
    shutil.rmtree(wd, ignore_errors=True)
    os.makedirs(wd)
    cfg = os.path.join(wd, "live.cfg")
    tlc.write_cfg(cfg, spec="FairSpec", properties=["CallsTerminate"], view="view",
                  constants={"MaxCalls": 1 if q else 2, "NetMode": '"all2"', "Limits": tlc.tla_set([0, 2]), "MaxM": tlc.tla_set([1000]),
                             "Ops": tlc.tla_set(["exp", "bfs", "dfs", "min", "tgt", "aseeds"]), "FailAts": tlc.tla_set([0]),
                             "EmitFrom": 99})
    r = tlc.model_check("MC_SD", cfg, wd)
    res.cov["states"] += r["distinct"]
    res.cov["transitions"] += r["generated"]
    res.cov["mc_runs"].append({"name": "driver liveness", "distinct_states": r["distinct"], "properties": ["CallsTerminate"],
                               "ok": r["ok"], "wall_s": round(r["wall_s"], 1)})
    if not r["ok"]:
        res.violations.append(f"{r['log']}#model:{','.join(r['violated'])}")
    # (3) the library: every kind of call on every kind of node; loop events, work counts, watchdog
    kinds = ["exp", "bfs", "dfs", "min", "minskip", "skipmin", "skiprem", "cand", "seeds", "seeds", "sets", "aseeds", "tgt",
             "block", "scc", "reclaim"]
    tasks = random_tasks(rng, N(q, 700, 12000), [3, 3, 4, 4, 5] if q else [3, 4, 4, 5, 5, 6], kinds, (2, 6), "r",
                         profiles=["sparse", "sparse", "modular", "mixed"], tail=[{"op": "allseeds"}])
    cfgs = [{"maxm": 100000, "candlim": 100000, "rsthr": t, "simbudget": b, "nfvsthr": f}
            for t in (1, 1000) for b in (0, 1000) for f in (0, 2000)]
    tasks += random_tasks(rng, N(q, 200, 3000), [3, 4, 4, 5], ["cand", "seeds", "sets", "exp", "skipmin"], (3, 6), "c", cfgs=cfgs,
                          profiles=["sparse", "modular"])
    tasks += gadget_tasks("g", [[{"op": "seeds", "n": 1}], [{"op": "sets", "n": 1}], [{"op": "build"}],
                                [FULL_BFS, {"op": "allseeds"}], [{"op": "exp", "n": 1}, {"op": "skiprem"}, {"op": "allseeds"}]])
    # a large simulation budget (the doubling loop of the simulation minification must still stop)
    big = {"maxm": 100000, "candlim": 100000, "rsthr": 1000, "simbudget": 100000, "nfvsthr": 2000}
    for name in ("latch", "xnor2", "xor2", "c14", "negring3"):
        tasks.append({"tid": f"b{name}", "tt": gen.gadget_networks()[name], "cfg": big, "timeout": 60.0,
                      "ops": [{"op": "cand", "n": 1}, {"op": "exp", "n": 1}, {"op": "cand", "n": 1}], "meta": "large simulation budget"})
    invs = ["Inv_HANG", "Inv_LOOP", "Inv_WORK"]
    res.cov["rule"] = ("(1) TLC checks Termination of the AttractorTest model (interleaved forward/backward saturation) for every pivot, every avoid set "
                       "and every answer of the symbolic-size oracle on all two-variable networks (thorough: + a catalogue of 3-variable networks), "
                       "(2) TLC checks under weak fairness that every started expansion call of the SD model returns, (3) random histories of all "
                       "public operations on sparse/modular 3-6 variable networks (the class on which the pre-fix livelock occurred) run under a "
                       "watchdog; every main-loop iteration of symbolic_attractor_test is logged by the guarded hook and TLC checks each consecutive "
                       "pair is a legal, progressing step of the modelled loop and that the executed loop back-edges of each call stay below a "
                       "bound in state-space size, diagram size and simulation budget; (4) the functions outside the diagram (solver front ends, Petri-net "
                       "translation / restriction, percolation, LDOI, drivers, name sanitization) return under the watchdog. Non-trivial: distinct histories with at least one "
                       "attractor-test call of >= 2 iterations.")

    def nt(tr):
        return any(len(L["its"]) >= 2 for e in tr["events"] for L in e["loops"])
    execute_and_validate(res, tasks, invs, "live", nt)
    # the functions outside the diagram (solver front ends, Petri-net translation and restriction, percolation, LDOI / drivers, name
    # sanitization incl. names that clash repeatedly) under the recorder's watchdog
    ptasks = pure_tasks(rng, q, ["trappist", "reduced", "pn", "restrict", "percnet", "perc", "strict", "conflicts", "ldoi", "drivers", "sanitize"],
                        4 if q else 12, [3, 3, 4], N(q, 120, 1200), exhaustive2=False, prefix="h")
    run_pure(res, ptasks, ["Inv_HANG"], "pure", lambda e: True, with_raised=False)


# ------------------------------------------------------------------------------------------------
# relational properties (Twin.tla)
# ------------------------------------------------------------------------------------------------
def run_twin(res: Result, tasks, twin_invs, single_invs, label, nontrivial):
    import twin
    wd = os.path.join(sdcheck.WORK, res.pid, "twin_" + label)
    shutil.rmtree(wd, ignore_errors=True)
    os.makedirs(wd)
    tf = os.path.join(wd, "twins.ndjson")
    sf = os.path.join(wd, "singles.ndjson")
    twin.record_many(tasks, tf, sf)
    out = tlc.validate_traces(tf, "Twin", twin_invs + ["Inv_UNKNOWN"], os.path.join(wd, "v_twin"))
    pairs = {}
    for ln in open(tf):
        t = json.loads(ln)
        pairs[t["tid"]] = t
    res.cov["traces_validated_against_impl"] += out["traces"]
    res.cov["states"] += out["states"]
    res.cov["transitions"] += out["generated"]
    res.cov["evaluations"] += sum(len(t["map"]) for t in pairs.values())
    seen = set()
    for t in pairs.values():
        key = json.dumps([t["net"], t["calls"], t["rel"], t.get("presentation"), t["val"]])
        if key not in seen:
            seen.add(key)
            if nontrivial(t):
                res.cov["distinct_nontrivial"] += 1
    for t in list(pairs.values())[:2]:
        res.cov["samples"].append({"tid": t["tid"], "rel": t["rel"], "net": t["net"], "calls": t["calls"],
                                   "presentation": t.get("presentation"), "final_nodes": len(t["b"][-1]["post"]["nodes"])})
    viol = {}
    for (inv, tid, l, op) in out["violations"]:
        viol.setdefault(tid, []).append((inv, l))
    known = sdcheck.load_known()
    for k, (tid, vs) in enumerate(sorted(viol.items())):
        t = pairs[tid]
        hit = [e for e in known.get("open", []) if e["property"] == res.pid and e["match"].get("twin") and
               e["match"].get("net") == t["net"]["f"]]
        if hit:
            msg = f"KNOWN-FINDING: property={res.pid} {hit[0]['id']}: {hit[0]['what']}"
            if msg not in res.known:
                res.known.append(msg)
            continue
        if k >= 25:
            break
        vd = os.path.join(sdcheck.WORK, res.pid, "violations", f"{label}_{tid}")
        os.makedirs(vd, exist_ok=True)
        json.dump(t, open(os.path.join(vd, "trace.json"), "w"))
        json.dump({"property": res.pid, "engine": "twin", "relation": t["rel"], "failing": [{"clause": i, "pair": l} for (i, l) in vs],
                   "net": t["net"], "calls": t["calls"], "presentation": t.get("presentation")},
                  open(os.path.join(vd, "verdict.json"), "w"), indent=1)
        res.violations.append(vd)
    if single_invs and os.path.getsize(sf) > 0:
        out2 = tlc.validate_traces(sf, "SDTrace", sdcheck.CONF_CLAUSES + single_invs + sdcheck.DIAGNOSTICS, os.path.join(wd, "v_single"))
        sdcheck.note_deviations(res, out2)
        res.cov["traces_validated_against_impl"] += out2["traces"]
        res.cov["states"] += out2["states"]
        res.cov["transitions"] += out2["generated"]
        singles = {}
        for ln in open(sf):
            t = json.loads(ln)
            singles[t["tid"]] = t
        byt = {}
        for (inv, tid, l, op) in out2["violations"]:
            byt.setdefault(tid, []).append((inv, l, op))
        for k, (tid, vs) in enumerate(sorted(byt.items())):
            if k >= 25:
                break
            vd = os.path.join(sdcheck.WORK, res.pid, "violations", f"{label}_single_{tid}")
            os.makedirs(vd, exist_ok=True)
            json.dump(singles[tid], open(os.path.join(vd, "trace.json"), "w"))
            json.dump({"property": res.pid, "failing": [{"invariant": i, "event": l, "op": o} for (i, l, o) in vs],
                       "net": singles[tid]["net"]}, open(os.path.join(vd, "verdict.json"), "w"), indent=1)
            res.violations.append(vd)


def _hist(rng, kinds, steps, nnodes_guess=4, nvars=3):
    return [gen.random_op(rng, kinds, nnodes_guess, nvars) for _ in range(steps)]


def c19(res: Result):
    q = res.tier == Q
    rng = random.Random(res.seed + 19)
    run_mc(res, "determinism", ["exp", "bfs", "dfs", "min", "skiprem", "seeds"], 2, [2], [1000], ["Inv_WF"], None)
    tasks = []
    pool = gen.network_pool(rng, N(q, 110, 1200), [3, 4, 4, 5, 5, 6], ["sparse", "modular", "mixed", "dense"])
    strategies = COMPLETE_DEFAULT + [[{"op": "min", "n": 1, "size": -1, "skip": True}, {"op": "skiprem"}], [{"op": "scc", "maa": False}],
                                     [{"op": "block", "maa": False, "optsrc": False, "exact": False, "size": -1}]]
    for i, tt in enumerate(pool):
        n = len(tt)
        target = [rng.choice([0, 1, 2]) for _ in range(n)]
        if all(x == 2 for x in target):
            target[0] = 1
        ops = list(rng.choice(strategies)) + [{"op": "allseeds"}, {"op": "allsets"},
                                              {"op": "control", "target": target, "strategy": rng.choice(["internal", "all"]), "sonly": False}]
        prelude = [{"tt": pool[(i + 7) % len(pool)], "ops": [{"op": "build"}, {"op": "allsets"}]},
                   {"tt": pool[(i + 13) % len(pool)], "ops": [{"op": "seeds", "n": 1, "fallback": True}, {"op": "skiprem"}, {"op": "allseeds"}],
                    "cfg": {"maxm": 100000, "candlim": 1, "rsthr": 1000, "simbudget": 1000, "nfvsthr": 2000}}]
        tasks.append({"kind": "same", "tid": f"s{i}", "tt": tt, "ops": ops, "prelude": prelude,
                      "hashseeds": ["1", "2", "random"] if q else ["1", "2", "3", "4", "random", "random"]})
    # networks with motif-avoidant / complex attractors (candidate reduction really has choices to make there): full
    # expansion, all attractor data, several hash seeds
    import features as _features
    special = [tt for _, tt in _features.feature_networks(["maa", "complex_attr", "multi_attr_in_min_trap"], 5)]
    special += [tt for name, tt in gen.gadget_networks().items() if len(tt) <= 5]
    special.append(bn.from_exprs(3, [lambda s: ((not s[0]) and (not s[1])) or s[2], lambda s: ((not s[0]) and (not s[1])) or s[2], lambda s: s[0] and s[1]]))
    for i, tt in enumerate(special):
        ops = [FULL_BFS, {"op": "allseeds"}, {"op": "allsets"}] if i % 2 == 0 else [{"op": "build"}, {"op": "allsets"}]
        tasks.append({"kind": "same", "tid": f"x{i}", "tt": tt, "ops": ops, "prelude": [],
                      "hashseeds": ["1", "2", "3", "4", "5"] if q else ["1", "2", "3", "4", "5", "6", "7", "random"]})
        if len(tt) >= 4:
            # the same network with variable names whose alphabetical order interleaves the modules (A, D | B, C): orders derived
            # from sets of names then differ between hash seeds if anything depends on them
            base = bn.names_for(len(tt))
            inter = [base[(j // 2) if j % 2 == 0 else len(tt) - 1 - (j // 2)] for j in range(len(tt))]
            tasks.append({"kind": "same", "tid": f"y{i}", "tt": tt, "names": inter, "prelude": [],
                          "ops": [{"op": "build"}, {"op": "allsets"}] if i % 2 == 0 else [{"op": "block", "maa": False, "optsrc": True, "exact": False, "size": -1}, {"op": "allseeds"}],
                          "hashseeds": ["1", "2", "3", "4", "5"] if q else ["1", "2", "3", "4", "5", "6", "7", "random"]})
    res.cov["rule"] = ("The same call history (a complete strategy, seeds and sets for all nodes, a control call) is executed in fresh interpreters with "
                       "PYTHONHASHSEED 0 / 1 / 2 / random, twice in one process, and after unrelated library activity (other diagrams built, symbolic "
                       "fallback, skipping); Twin.tla requires every logged item to be identical: ids, spaces, edges, motif order, depths, candidates, "
                       "seeds, sets, return values and the order of the returned interventions. Non-trivial: distinct (network, history) with >= 3 nodes.")
    run_twin(res, tasks, ["Inv_POST", "Inv_OUT"], [], "same", lambda t: len(t["b"][-1]["post"]["nodes"]) >= 3)


def c16(res: Result):
    q = res.tier == Q
    rng = random.Random(res.seed + 16)
    run_mc(res, "reclaim", ["exp", "bfs", "skipmin", "cand", "seeds", "sets", "reclaim"], 2, [2], [1000], ["Inv_WF", "Inv_CacheFresh"], None)
    tasks = []
    kinds = ["exp", "bfs", "dfs", "min", "minskip", "skipmin", "skiprem", "cand", "seeds", "sets", "tgt", "aseeds"]
    pool = gen.network_pool(rng, N(q, 120, 1500), [3, 3, 4, 4, 5], ["sparse", "modular", "mixed"])
    for i, tt in enumerate(pool):
        n = len(tt)
        ops = []
        nn = 1
        for _ in range(rng.randint(2, 4)):
            ops.append(gen.random_op(rng, kinds, nn + 2, n))
            nn += 2
        target = [rng.choice([0, 1, 2]) for _ in range(n)]
        if all(x == 2 for x in target):
            target[0] = 0
        ops += [{"op": "control", "target": target, "strategy": "internal", "sonly": False}, {"op": "bfs", "n": 1, "lvl": -1, "size": -1}, {"op": "allseeds"}]
        t = {"kind": "transp", "tid": f"t{i}", "tt": tt, "ops": ops, "inserts": ["pickle", "reclaim"]}
        if i % 3 == 1:
            # non-default configuration: limits that the history runs into must survive the round trip
            t["cfg"] = {"maxm": rng.choice([1, 2, 3]), "candlim": rng.choice([1, 2, 100000]), "rsthr": rng.choice([1, 1000]),
                        "simbudget": rng.choice([0, 1000]), "nfvsthr": rng.choice([0, 2000])}
        if i % 4 == 0:
            # networks built through the AEON API with a non-alphabetical declaration order
            names = bn.names_for(n)
            rng.shuffle(names)
            t["names"] = names
            t["api"] = True
        tasks.append(t)
    # stubs that are queried (which fills their derived caches) and expanded later: a reclaim in between must not matter
    pats = [[{"op": "exp", "n": 1}, {"op": "seeds", "n": 2}, {"op": "seeds", "n": 3}, FULL_BFS, {"op": "allseeds"}],
            [{"op": "exp", "n": 1}, {"op": "cand", "n": 3}, {"op": "cand", "n": 2}, {"op": "exp", "n": 2}, {"op": "exp", "n": 3}, FULL_DFS],
            [{"op": "bfs", "n": 1, "lvl": 1, "size": -1}, {"op": "sets", "n": 2}, {"op": "sets", "n": 4}, {"op": "min", "n": 1, "size": -1, "skip": False}, FULL_BFS],
            [{"op": "seeds", "n": 1}, {"op": "exp", "n": 1}, {"op": "seeds", "n": 2}, {"op": "aseeds", "size": -1}, {"op": "allseeds"}]]
    import features
    special = [(k, tt) for k, tt in gen.gadget_networks().items() if len(tt) <= 5]
    special += [(nm, tt) for nm, tt in features.feature_networks(["new_source", "modules"], 5)][:N(q, 12, 60)]
    for name, tt in special:
        for j, ops in enumerate(pats):
            tasks.append({"kind": "transp", "tid": f"p{name}_{j}", "tt": tt, "ops": ops, "inserts": ["reclaim"] if q else ["pickle", "reclaim"]})
    res.cov["rule"] = ("For random histories of expansion / skip / attractor / control calls, the same history with pickle.loads(pickle.dumps(sd)) or "
                       "reclaim_node_data() inserted at every position is executed; Twin.tla requires identical ids, spaces, edges, motifs, flags, depths, "
                       "seeds, sets, return values and interventions after every corresponding call (raw candidate lists only where neither side reclaimed "
                       "them). A quarter of the networks is built through the AEON API with variables declared in non-alphabetical order. The runs with the "
                       "insertions are also validated event by event by SDTrace. Non-trivial: distinct (network, history, insertion point) with >= 3 nodes.")
    run_twin(res, tasks, ["Inv_POST", "Inv_OUT"], ["Inv_IndexExact", "Inv_WF"],
             "transp", lambda t: len(t["b"][-1]["post"]["nodes"]) >= 3)


def c17(res: Result):
    q = res.tier == Q
    rng = random.Random(res.seed + 17)
    tasks = []
    pool = gen.network_pool(rng, N(q, 150, 2500), [2, 3, 3, 4, 4, 5], ["sparse", "modular", "mixed", "dense"])
    pool += [tt for _, tt in gen.gadget_networks().items() if len(tt) <= 6]
    for i, tt in enumerate(pool):
        ops = list(rng.choice(COMPLETE_DEFAULT + [[{"op": "min", "n": 1, "size": -1, "skip": False}], [{"op": "scc", "maa": False}]])) + [{"op": "allsets"}]
        tasks.append({"kind": "sigma", "tid": f"p{i}", "tt": tt, "ops": ops, "seed": rng.randrange(1 << 30), "variants": 3 if q else 6})
        if i % 4 == 0:
            # a non-default configuration must reach the diagram whatever the text format: a single root expansion under a small
            # motif limit raises or not depending only on the number of motifs (presentation-independent)
            tasks.append({"kind": "sigma", "tid": f"c{i}", "tt": tt, "ops": [{"op": "exp", "n": 1}, {"op": "allsets"}], "seed": rng.randrange(1 << 30),
                          "variants": 3 if q else 6,
                          "cfg": {"maxm": rng.choice([1, 2, 3]), "candlim": 100000, "rsthr": 1000, "simbudget": 1000, "nfvsthr": 2000}})
    res.cov["rule"] = ("Each network is presented in several ways: variables renamed (names whose alphabetical order differs from the declaration order, "
                       "mixed case, digits, underscores), declarations shuffled, update functions rendered as minterm DNF or as random Shannon "
                       "expansions, variables encoded by their negation, and bnet / aeon / sbml text; the library is run on the original and on each "
                       "presentation. Twin.tla checks the diagrams are isomorphic under the variable permutation and negation (nodes, flags, edges, motif "
                       "sets, minimal trap spaces) and the attractor sets map onto each other; every presentation run is also validated against the "
                       "transformed truth tables by SDTrace. Name sanitization is validated in the C10/C17 pure events. Non-trivial: distinct presentations "
                       "of networks with >= 3 nodes.")
    # name sanitization (pure events): ASCII punctuation, brackets, collisions after sanitizing, non-ASCII letters and digits
    ptasks = pure_tasks(rng, q, ["sanitize"], 9 if q else 30, [2, 3, 3, 4], N(q, 150, 1500), exhaustive2=False, prefix="s")
    run_pure(res, ptasks, ["Inv_SANITIZE"], "sanitize", lambda e: e["names_in"] != e["names_out"])
    run_twin(res, tasks, ["Inv_ISO", "Inv_MIN", "Inv_ATTR", "Inv_OUT"], ["Inv_WF", "Inv_C01", "Inv_MinExact", "Inv_PartialFaithful", "Inv_CacheFresh"],
             "sigma", lambda t: len(t["b"][-1]["post"]["nodes"]) >= 3)


def c18(res: Result):
    q = res.tier == Q
    rng = random.Random(res.seed + 18)
    run_theorems(res, ["T_Attr", "T_MinTrap"])
    # (1) disjoint unions: validated directly against the composed truth tables (C01 / C03 invariants)
    small = [tt for tt in gen.network_pool(rng, N(q, 60, 400), [1, 2, 2, 3, 3], ["mixed", "sparse", "dense"]) if len(tt) >= 1]
    small += [tt for _, tt in gen.gadget_networks().items() if len(tt) <= 3]
    tasks = []
    for i in range(N(q, 150, 2000)):
        a, b = rng.choice(small), rng.choice(small)
        tt = bn.disjoint_union(a, b)
        strat = rng.choice(COMPLETE_DEFAULT)
        tasks.append({"tid": f"u{i}", "tt": tt, "ops": list(strat) + [{"op": "expseeds"}], "meta": f"disjoint union {len(a)}+{len(b)}"})
    # modules that are conditioned on another module rather than independent of it (the hand-built networks), under the strategies
    # that exploit the block structure
    for name, tt in gen.gadget_networks().items():
        if len(tt) <= 6:
            for j, strat in enumerate((COMPLETE_DEFAULT[0], COMPLETE_DEFAULT[1], COMPLETE_DEFAULT[4])):
                tasks.append({"tid": f"g{name}_{j}", "tt": tt, "ops": list(strat) + [{"op": "expseeds"}], "meta": f"gadget:{name}"})
    execute_and_validate(res, tasks, ["Inv_C01", "Inv_MinExact", "Inv_WF"], "union",
                         lambda tr: sum(len(n["seeds"]["v"]) for n in tr["events"][-1]["post"]["nodes"]) >= 2)
    # (2) inputs fixed vs free
    tw = []
    k = 0
    while len(tw) < (N(q, 60, 600)) and k < 20000:
        k += 1
        n = rng.choice([3, 4, 4, 5])
        tt = bn.random_network(rng, n, "modular")
        nsrc = sum(1 for i in range(n) if all(tt[i][s] == ((s >> i) & 1) for s in range(1 << n)))
        if 1 <= nsrc <= 2:
            # full BFS, and the default strategies (block expansion with source shortcuts / build)
            ops = rng.choice([None, None, [{"op": "build"}, {"op": "allsets"}],
                              [{"op": "block", "maa": True, "optsrc": True, "exact": False, "size": -1}, {"op": "allsets"}],
                              [{"op": "block", "maa": False, "optsrc": True, "exact": False, "size": -1}, {"op": "allsets"}]])
            t = {"kind": "below", "tid": f"b{len(tw)}", "tt": tt}
            if ops:
                t["ops"] = ops
            tw.append(t)
    res.cov["rule"] = ("(1) disjoint unions of two 1-3 variable networks under each complete strategy: TLC computes minimal trap spaces and attractors of the "
                       "composed truth tables and checks the library's result (the product structure is a TLC-checked theorem of the definitions); "
                       "(2) networks with 1-2 source variables: for every input valuation the fully expanded diagram of the network with the sources "
                       "replaced by constants must equal (node spaces, flags, edges, attractor sets) the part of the free-input diagram inside that "
                       "valuation (Twin relation 'below', under full BFS and under build / block expansion), and both runs are validated by SDTrace; "
                       "(3) published models whose percolated core has <= 7 (quick) / 10 (thorough) variables: build() runs on the FULL model, the root "
                       "percolation is certified variable by variable (TLC checks constancy of each update function over its support given lower-ranked "
                       "values) and the diagram and seeds projected onto the core are judged by TLC against the core network (minimal trap spaces and "
                       "attractors by explicit enumeration). Models with a larger core are listed as not covered. "
                       "Non-trivial: distinct compositions with >= 2 attractors / valuations with >= 2 nodes.")
    # structured networks in which fixing an input creates new source variables
    f3 = bn.from_exprs
    extra = [f3(5, [lambda s: s[0], lambda s: s[1] or s[0], lambda s: s[2] or s[0], lambda s: s[4] and not s[0], lambda s: s[3]]),
             f3(4, [lambda s: s[0], lambda s: (s[1] and s[0]) or (s[2] and not s[0]), lambda s: s[2] and s[1], lambda s: not s[3] or s[0]]),
             f3(4, [lambda s: s[0], lambda s: s[1] or s[0], lambda s: s[2] and (s[1] or not s[0]), lambda s: s[3] and s[2]])]
    # inputs that change the logic of a downstream module without changing its variable set (gadgets of round 4)
    extra += [gen.gadget_networks()[k] for k in ("src_gate", "src_maa_gate", "src_xor_scc", "src_xor_scc2")]
    for j, tt in enumerate(extra):
        for ops in (None, [{"op": "build"}, {"op": "allsets"}], [{"op": "block", "maa": False, "optsrc": True, "exact": False, "size": -1}, {"op": "allsets"}],
                    [{"op": "block", "maa": True, "optsrc": True, "exact": False, "size": -1}, {"op": "allsets"}]):
            t = {"kind": "below", "tid": f"x{j}_{len(tw)}", "tt": tt}
            if ops:
                t["ops"] = ops
            tw.append(t)
    run_twin(res, tw, ["Inv_ISO", "Inv_ATTR"], ["Inv_WF", "Inv_FullExact", "Inv_CacheFresh", "Inv_SetsFresh"], "below",
             lambda t: len(t["b"][-1]["post"]["nodes"]) >= 2)
    run_core_models(res, q, rng)


def run_core_models(res: Result, q: bool, rng):
    """(3) published models with a small percolated core: build() on the full model, judged by TLC on the core network"""
    import glob
    import models
    repo = os.environ.get("VERIF_REPO") or "/repo"
    files = sorted(glob.glob(os.path.join(repo, "models", "bbm-bnet-inputs-true", "*.bnet")))
    if q:
        files = rng.sample(files, 40)
    tasks = [{"path": f, "max_core": 7 if q else 10, "max_local": 10 if q else 13, "timeout": N(q, 60, 240)} for f in files]
    wd = os.path.join(sdcheck.WORK, res.pid, "coremodels")
    shutil.rmtree(wd, ignore_errors=True)
    os.makedirs(wd)
    sf, pf = os.path.join(wd, "sd.ndjson"), os.path.join(wd, "pure.ndjson")
    done, skipped = models.record_many(tasks, sf, pf)
    res.cov["models_tried"] = len(files)
    res.cov["models_validated"] = done[:60]
    res.cov["models_validated_count"] = len(done)
    res.cov["models_not_covered"] = [{"model": x["skipped"], "why": x["why"]} for x in skipped][:200]
    if not done:
        return
    o1 = tlc.validate_traces(sf, "SDTrace", ["Inv_WF", "Inv_PartialFaithful", "Inv_MinExact", "Inv_C01"], os.path.join(wd, "v_sd"))
    o2 = tlc.validate_traces(pf, "PureTrace", ["Inv_PERC", "Inv_RAISED", "Inv_UNKNOWN"], os.path.join(wd, "v_pure"))
    for o in (o1, o2):
        res.cov["traces_validated_against_impl"] += o["traces"]
        res.cov["states"] += o["states"]
        res.cov["transitions"] += o["generated"]
    res.cov["evaluations"] += len(done)
    res.cov["distinct_nontrivial"] += sum(1 for d in done if d["core"] >= 1 or d["variables"] >= 10)
    bad = {}
    for (inv, tid, l, op) in o1["violations"] + o2["violations"]:
        bad.setdefault(tid.split(":")[0].lstrip("m"), []).append((inv, tid, l, op))
    for d in done:
        if not d["fixed_consistent"]:
            bad.setdefault(d["model"][:3], []).append(("FIXED", d["model"], 0, "a node space or seed disagrees with the root space on a fixed variable"))
    for k, (m, vs) in enumerate(sorted(bad.items())):
        if k >= 15:
            break
        vd = os.path.join(sdcheck.WORK, res.pid, "violations", f"model_{m}")
        os.makedirs(vd, exist_ok=True)
        json.dump({"property": res.pid, "engine": "core-models", "model": m, "failing": [list(v) for v in vs]},
                  open(os.path.join(vd, "verdict.json"), "w"), indent=1)
        for ln in open(sf):
            t = json.loads(ln)
            if t["model"].startswith(m):
                json.dump(t, open(os.path.join(vd, "trace.json"), "w"))
        res.violations.append(vd)

# ------------------------------------------------------------------------------------------------
# the repository's own test suite as a trace source (harness/suite.py)
# ------------------------------------------------------------------------------------------------
SUITE_INVS = ["Inv_WF", "Inv_IndexExact", "Inv_PartialFaithful", "Inv_PlainOnly", "Inv_DepthExact", "Inv_CacheFresh", "Inv_Covers",
              "Inv_SetsFresh", "Inv_FullExact", "Inv_MinExact", "Inv_RetFalse", "Inv_TrueMeansClosed", "Inv_SeedsAll", "Inv_C01"]


_SDT, _BLK, _SCC, _CTL = "tests/succession_diagram_test.py", "tests/source_block_test.py", "tests/source_SCC_test.py", "tests/control_test.py"
# property -> (tests of the thorough tier, verdict clauses, tests of the quick tier or None)
SUITE_PLAN = {
    "C02": ([_SDT, "-k", "not attractor"], ["Inv_WF", "Inv_PartialFaithful", "Inv_FullExact", "Inv_MinExact"], [_SDT, "-k", "structure or limit or state"]),
    "C04": ([_SDT, _BLK, _SCC, "-k", "not attractor"], ["Inv_WF", "Inv_PartialFaithful", "Inv_PlainOnly", "Inv_FullExact"], None),
    "C03": ([_SDT, "-k", "comparisons or expansion"], ["Inv_MinExact", "Inv_WF"], None),
    "C01": ([_SDT, _BLK, _SCC, "-k", "attractor or state"], ["Inv_C01", "Inv_WF"], None),
    "C05": ([_SDT, "-k", "attractor"], ["Inv_SeedsAll", "Inv_WF"], None),
    "C08": ([_SDT, _BLK, _SCC, "-k", "attractor"], ["Inv_Covers"], None),
    "C12": ([_SDT, _BLK, "-k", "attractor"], ["Inv_SetsFresh", "Inv_CacheFresh"], None),
    "C14": ([_SDT, _BLK, _SCC, "-k", "attractor"], ["Inv_CacheFresh"], None),
    "C15": ([_SDT, "-k", "limit or comparisons"], ["Inv_WF", "Inv_PartialFaithful", "Inv_CacheFresh", "Inv_RetFalse", "Inv_MinExact", "Inv_FullExact", "Inv_TrueMeansClosed"], None),
    "C07": ([_CTL], ["Inv_WF", "Inv_PartialFaithful"], None),
    "C20": ([_SDT, _BLK, _SCC, "-k", "not attractor"], ["Inv_PROJ", "Inv_DepthExact", "Inv_IndexExact"], None),
}


def record_suite(tests: list[str], out: str, maxcore: int, timeout: float = 2400.0) -> dict:
    """run the selected repository tests under the recording plugin; returns {"exit": code, "tail": last output line}"""
    import subprocess
    repo = os.environ.get("VERIF_REPO") or "/repo"
    env = dict(os.environ)
    env.update({"SUITE_OUT": out, "SUITE_MAXCORE": str(maxcore), "BIOBALM_VERIF": "1", "PYTHONHASHSEED": "0",
                "PYTHONPATH": os.path.dirname(os.path.abspath(__file__)) + os.pathsep + repo})
    env.pop("VERIF_REPO", None)      # the plugin imports the library from the working directory's repository
    env["VERIF_REPO"] = repo
    cmd = [sys.executable, "-m", "pytest", "-q", "-p", "no:cacheprovider", "-p", "suite"] + tests
    try:
        r = subprocess.run(cmd, cwd=repo, env=env, capture_output=True, text=True, timeout=timeout)
        tail = (r.stdout.strip().splitlines() or [""])[-1]
        return {"exit": r.returncode, "tail": tail}
    except subprocess.TimeoutExpired:
        return {"exit": -9, "tail": "timeout"}


def run_suite(res: Result, q: bool, tests: list[str], invariants: list[str], label: str = "suite"):
    """
    Conformance of the maintainers' own executions: every outermost public call the selected repository tests make on a
    SuccessionDiagram (published models are projected onto their percolated core) is validated by SDTrace.tla.
    """
    wd = os.path.join(sdcheck.WORK, res.pid, "tr_" + label)
    shutil.rmtree(wd, ignore_errors=True)
    os.makedirs(wd)
    raw = os.path.join(wd, "raw.ndjson")
    info = record_suite(tests, raw, 6 if q else 9)
    res.cov.setdefault("repository_tests", []).append({"tests": tests, "pytest_exit": info["exit"], "pytest_summary": info["tail"]})
    if not os.path.exists(raw):
        raise tlc.TLCFailure(f"the recording plugin produced no trace file ({info})")
    # identical executions (the SCC tests build thousands of equal component diagrams) are validated once
    seen, kept, total, bad_fixed = set(), [], 0, []
    for ln in open(raw):
        t = json.loads(ln)
        total += 1
        if not t["fixed_consistent"]:
            bad_fixed.append(t)
        key = json.dumps([t["net"], t["cfg"], t["srcs"], [{k: v for k, v in e.items() if k != "work"} for e in t["events"]]], sort_keys=True)
        if key in seen:
            continue
        seen.add(key)
        kept.append(t)
    if q and len(kept) > 250:
        kept.sort(key=lambda t: len(json.dumps(t)))
        kept = kept[:250]
    tf = os.path.join(wd, "traces.ndjson")
    with open(tf, "w") as f:
        for t in kept:
            f.write(json.dumps(t) + "\n")
    res.cov["suite_traces_recorded"] = res.cov.get("suite_traces_recorded", 0) + total
    res.cov["suite_traces_distinct"] = res.cov.get("suite_traces_distinct", 0) + len(kept)
    try:
        res.cov["suite_objects_not_traced"] = json.load(open(raw + ".skipped.json"))[:40]
    except (OSError, ValueError):
        pass
    sdcheck.validate_recorded(res, tf, wd, invariants, label, lambda tr: nodes_of(tr) >= 3, engine="suite")
    for k, t in enumerate(bad_fixed[:10]):
        vd = os.path.join(sdcheck.WORK, res.pid, "violations", f"{label}_fixed{k}")
        os.makedirs(vd, exist_ok=True)
        json.dump(t, open(os.path.join(vd, "trace.json"), "w"))
        json.dump({"property": res.pid, "engine": "suite", "failing": [{"invariant": "FIXED", "event": 0, "op": "a space or state disagrees with a constant of the network"}],
                   "test": t["test"]}, open(os.path.join(vd, "verdict.json"), "w"), indent=1)
        res.violations.append(vd)

# ------------------------------------------------------------------------------------------------
# the candidate pipeline, stage by stage (CandTrace.tla over the step functions of Cand.tla)
# ------------------------------------------------------------------------------------------------
def validate_pipes(res: Result, label: str):
    """
    Every run of compute_attractor_candidates inside the traces of workload `label` was recorded stage by stage (rec.py);
    TLC replays the stages through the step functions that Candidates.tla model-checks.  Clause COVERS is a C08 verdict;
    every other clause is mechanism conformance and reported as a diagnostic.
    """
    wd = os.path.join(sdcheck.WORK, res.pid, "tr_" + label)
    src = os.path.join(wd, "traces.ndjson")
    pf = os.path.join(wd, "pipes.ndjson")
    n, kinds, owner = 0, {}, {}
    with open(pf, "w") as f:
        for ln in open(src):
            tr = json.loads(ln)
            for j, pr in enumerate(tr.get("pipes", [])):
                tid = f"{tr['tid']}.{j}"
                owner[tid] = (tr, pr)
                f.write(json.dumps({"tid": tid, "net": tr["net"], "events": pr["events"]}) + "\n")
                n += 1
                for e in pr["events"]:
                    kinds[e["k"]] = kinds.get(e["k"], 0) + 1
    if n == 0:
        # e.g. the stage functions of the pipeline have another signature than the recorder knows: nothing to replay at stage
        # level (the C08 verdict on the returned lists is Inv_Covers in the trace validation above)
        res.cov["pipeline_conformance"] = {"runs": 0, "note": "no stage-level records (stage functions not recognisable)"}
        print(f"MODEL-DEVIATION (diagnostic, not a violation) property={res.pid} clause=PIPELINE-UNAVAILABLE trace=- event=0 op=-")
        return
    out = tlc.validate_traces(pf, "CandTrace", ["Inv_MECH", "Inv_COVERS", "Inv_COMPLETE"], os.path.join(wd, "v_pipes"))
    res.cov["states"] += out["states"]
    res.cov["transitions"] += out["generated"]
    res.cov["traces_validated_against_impl"] += out["traces"]
    mech = [v for v in out["violations"] if v[0] != "COVERS"]
    res.cov["pipeline_conformance"] = {"runs": n, "stage_events": kinds, "accepted": len(out["done"]),
                                       "mechanism_deviations": len(mech),
                                       "errors_raised": sum(1 for (t, pr) in owner.values() if pr["events"][-1]["ret"] == "error")}
    res.cov["model_deviations"] = res.cov.get("model_deviations", 0) + len(mech)
    for (c, tid, l, k) in mech[:3]:
        print(f"MODEL-DEVIATION (diagnostic, not a violation) property={res.pid} clause=PIPELINE-{c} trace={tid} event={l} op={k}")
    for i, (c, tid, l, k) in enumerate(v for v in out["violations"] if v[0] == "COVERS"):
        if i >= 10:
            break
        tr, pr = owner[tid]
        vd = os.path.join(sdcheck.WORK, res.pid, "violations", f"pipe_{tid}")
        os.makedirs(vd, exist_ok=True)
        json.dump({"tid": tid, "net": tr["net"], "events": pr["events"]}, open(os.path.join(vd, "trace.json"), "w"))
        json.dump({"property": res.pid, "engine": "pipeline", "failing": [{"invariant": "COVERS", "event": l, "op": k}],
                   "history": sdcheck.trace_signature(tr, pr["event"]), "node": pr["node"]}, open(os.path.join(vd, "verdict.json"), "w"), indent=1)
        res.violations.append(vd)


CHECKS = {"C16": c16, "C17": c17, "C18": c18, "C19": c19, "C13": c13, "C06": c06, "C07": c07, "C09": c09, "C10": c10, "C11": c11, "C15": c15, "C01": c01, "C02": c02, "C03": c03, "C04": c04, "C05": c05, "C08": c08, "C12": c12, "C14": c14, "C20": c20}


# ------------------------------------------------------------------------------------------------
# binding self-test (thorough tier): a recorded trace with one corrupted field must be rejected
# ------------------------------------------------------------------------------------------------
def binding_selftest(res: Result, trace_file: str, module: str, invariants: list[str], corrupt, label: str, want: int = 20):
    """corrupt(trace) -> bool (True if it changed something that the invariants must notice)"""
    wd = os.path.join(sdcheck.WORK, res.pid, "selftest_" + label)
    shutil.rmtree(wd, ignore_errors=True)
    os.makedirs(wd)
    out = os.path.join(wd, "corrupted.ndjson")
    n = 0
    with open(out, "w") as f:
        for ln in open(trace_file):
            tr = json.loads(ln)
            if corrupt(tr):
                f.write(json.dumps(tr) + "\n")
                n += 1
                if n >= want:
                    break
    if n == 0:
        raise tlc.TLCFailure(f"binding self-test {label}: nothing to corrupt")
    r = tlc.validate_traces(out, module, invariants, wd)
    rejected = len({v[1] for v in r["violations"]})
    res.cov.setdefault("binding_selftest", []).append({"what": label, "corrupted_traces": n, "rejected": rejected})
    if rejected != n:
        raise tlc.TLCFailure(f"binding self-test {label}: only {rejected} of {n} corrupted traces were rejected")


def _corrupt_sd_depth(tr):
    for e in tr["events"][1:]:
        nodes = e["post"]["nodes"]
        if len(nodes) >= 2:
            nodes[-1]["depth"] += 1
            return True
    return False


def _corrupt_sd_edge(tr):
    for e in tr["events"][1:]:
        if e["post"]["edges"] and e["op"] in ("bfs", "dfs", "exp"):
            e["post"]["edges"] = e["post"]["edges"][1:]
            return True
    return False


def _corrupt_sd_seed(tr):
    for e in tr["events"][1:]:
        for nd in e["post"]["nodes"]:
            if nd["seeds"]["k"] == 1 and len(nd["seeds"]["v"]) >= 1:
                nd["seeds"]["v"] = nd["seeds"]["v"] + [nd["seeds"]["v"][0]]
                return True
    return False


def selftests(res: Result):
    """run after the property's own workload (thorough tier): the trace files of that workload are corrupted"""
    base = os.path.join(sdcheck.WORK, res.pid)
    if res.pid == "C20":
        binding_selftest(res, os.path.join(base, "tr_meta", "traces.ndjson"), "SDTrace", ["Inv_DepthExact"], _corrupt_sd_depth, "depth+1")
    if res.pid in ("C02", "C04"):
        lab = "full" if res.pid == "C02" else "plain"
        binding_selftest(res, os.path.join(base, "tr_" + lab, "traces.ndjson"), "SDTrace", ["Inv_PartialFaithful"], _corrupt_sd_edge, "edge dropped")
    if res.pid in ("C02", "C04") and os.path.exists(os.path.join(base, "tr_suite", "traces.ndjson")):
        # the traces of the repository's own tests are bound too: a dropped edge in a recorded projection must be rejected
        binding_selftest(res, os.path.join(base, "tr_suite", "traces.ndjson"), "SDTrace", ["Inv_PartialFaithful"], _corrupt_sd_edge,
                         "suite: edge dropped", want=8)
    if res.pid in ("C01", "C12", "C14"):
        lab = {"C01": "seeds", "C12": "sets", "C14": "cache"}[res.pid]
        binding_selftest(res, os.path.join(base, "tr_" + lab, "traces.ndjson"), "SDTrace", ["Inv_CacheFresh", "Inv_C01"], _corrupt_sd_seed, "seed duplicated")
    if res.pid == "C09":
        def c(tr):
            for e in tr["events"]:
                if e["k"] == "trappist" and len(e["res"]) >= 2 and e["limit"] == -1:
                    e["res"] = e["res"][:-1]
                    return True
            return False
        binding_selftest(res, os.path.join(base, "pure_solver", "traces.ndjson"), "PureTrace", ["Inv_TRAPPIST"], c, "solution dropped")
    if res.pid == "C10":
        def c(tr):
            for e in tr["events"]:
                if e["k"] == "pn" and len(e["pn"]) >= 2:
                    e["pn"] = e["pn"][1:]
                    return True
            return False
        binding_selftest(res, os.path.join(base, "pure_pn", "traces.ndjson"), "PureTrace", ["Inv_PN"], c, "transition dropped")
    if res.pid == "C11":
        def c(tr):
            for e in tr["events"]:
                if e["k"] == "perc" and any(x != 2 and y == 2 for x, y in zip(e["res1"], e["sp"])):
                    i = [j for j, (x, y) in enumerate(zip(e["res1"], e["sp"])) if x != 2 and y == 2][0]
                    e["res1"][i] = 2
                    return True
            return False
        binding_selftest(res, os.path.join(base, "pure_perc", "traces.ndjson"), "PureTrace", ["Inv_PERC"], c, "percolated value dropped")
    if res.pid == "C07":
        def c(tr):
            for e in tr["events"]:
                if e["fresh"] and not e["skipff"] and e["res"] and any(x["ctl"] and x["ctl"][0] for x in e["res"]):
                    for x in e["res"]:
                        if x["ctl"] and x["ctl"][0]:
                            x["ctl"][0] = x["ctl"][0][1:]
                            x["ok"] = all(len(st) > 0 for st in x["ctl"])
                            return True
            return False
        binding_selftest(res, os.path.join(base, "ctl_exact", "traces.ndjson"), "ControlTrace", ["Inv_C07", "Inv_FLAG"], c, "override dropped")
    if res.pid == "C19":
        def c(tr):
            for e in tr["b"]:
                if len(e["post"]["nodes"]) >= 2:
                    e["post"]["nodes"][-1]["depth"] += 1
                    return True
            return False
        binding_selftest(res, os.path.join(base, "twin_same", "twins.ndjson"), "Twin", ["Inv_POST"], c, "depth changed in one run")


def run(pid: str, tier: str, seed: int) -> int:
    if pid not in CHECKS:
        print(f"no check for {pid}")
        return 2
    shutil.rmtree(os.path.join(sdcheck.WORK, pid), ignore_errors=True)
    res = Result(pid, tier, seed)
    res.assumptions = ["TLC 1.8 and the CommunityModules Json reader", "BoolNet.tla definitions (theorem-checked in MC_Theorems)",
                       "harness: truth-table renderer (round-trip self-test), projection, recorder",
                       "networks up to 6 variables; histories up to the stated depth"]
    CHECKS[pid](res)
    if pid in SUITE_PLAN and (tier != Q or SUITE_PLAN[pid][2]):
        tests, invs, qtests = SUITE_PLAN[pid]
        run_suite(res, tier == Q, qtests if tier == Q else tests, invs)
    if tier != Q or os.environ.get("VERIF_SELFTEST"):
        selftests(res)
    return res.finish()


def replay(pid: str, path: str) -> int:
    """
    Replay of a violation.  SD-engine traces: the recorded call history is re-executed against the current code and
    re-validated.  Other engines (pure / control / twin / depth-action / models): the recorded events are validated again
    by TLC (the artefact carries inputs and outputs of the failing call; verdict.json names the clause).
    """
    if "#model:" in path:
        print(f"model-level violation: see the TLC counterexample in {path.split('#')[0]}")
        return 1
    tr = json.load(open(os.path.join(path, "trace.json")))
    verdict = json.load(open(os.path.join(path, "verdict.json")))
    engine = verdict.get("engine", "sd")
    wd = os.path.join(sdcheck.WORK, pid, "replay")
    shutil.rmtree(wd, ignore_errors=True)
    os.makedirs(wd)
    tf = os.path.join(wd, "traces.ndjson")
    if engine == "sd":
        ops = [{k: v for k, v in e.items() if k not in ("post", "ret", "out", "raised", "exc", "xl", "mts", "orc", "solver_calls", "loops", "work", "other", "ctl")}
               for e in tr["events"][1:]]
        task = {"tid": tr["tid"], "tt": tr["net"]["f"], "ops": ops, "cfg": tr["cfg"], "names": tr["names"]}
        gen.record_many([task], tf, procs=1)
        invs = sorted({f["invariant"] for f in verdict["failing"]})
        module, invs = "SDTrace", ["Inv_" + i if not i.startswith("Inv_") else i for i in invs]
    elif engine == "suite":
        raw = os.path.join(wd, "raw.ndjson")
        info = record_suite([tr["test"]], raw, max(9, tr["net"]["n"]))
        print(f"(engine suite: re-ran {tr['test']} under the recorder: {info['tail']})")
        with open(tf, "w") as f:
            for ln in open(raw):
                f.write(ln)
        invs = sorted({f["invariant"] for f in verdict["failing"] if f["invariant"] != "FIXED"})
        module, invs = "SDTrace", ["Inv_" + i if not i.startswith("Inv_") else i for i in invs]
        if any(not json.loads(ln)["fixed_consistent"] for ln in open(raw)):
            print("still failing: a space or state disagrees with a constant of the network")
            print(f"VIOLATION property={pid} replay={path}")
            return 1
    else:
        with open(tf, "w") as f:
            f.write(json.dumps(tr) + "\n")
        module = {"pure": "PureTrace", "pure-models": "PureTrace", "control": "ControlTrace", "twin": "Twin", "depth-action": "DepthTrace",
                  "pipeline": "CandTrace"}.get(engine)
        if module is None:
            print(f"no replay for engine {engine}; see {path}/verdict.json")
            return 1
        names = set()
        for fl in verdict["failing"]:
            if isinstance(fl, dict):
                names.add(fl.get("invariant") or fl.get("clause"))
            else:
                names.add(fl[0])
        invs = ["Inv_" + n for n in sorted(x for x in names if x)]
        print(f"(engine {engine}: re-validating the recorded events; re-execution of the history is only available for the SD engine)")
    out = tlc.validate_traces(tf, module, invs, wd, shards=1)
    for v in out["violations"]:
        print("still failing:", v)
    if out["violations"]:
        print(f"VIOLATION property={pid} replay={path}")
        return 1
    print("replay: the recorded history is now accepted")
    return 0
