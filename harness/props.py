"""
Per-property check definitions.  Every property is decided with the TLA+ machinery: TLC model
checks the specification and TLC validates what the implementation did.
"""
from __future__ import annotations

import json
import os
import random
import shutil
import sys

sys.path.insert(0, os.path.dirname(__file__))
import bn  # noqa: E402
import gen  # noqa: E402
import sdcheck  # noqa: E402
import tlc  # noqa: E402
from sdcheck import Result, execute_and_validate, random_tasks, run_mc, tasks_from_emitted  # noqa: E402

Q = "quick"
FULL_BFS = {"op": "bfs", "n": 1, "lvl": -1, "size": -1}
FULL_DFS = {"op": "dfs", "n": 1, "stk": -1, "size": -1}


def nodes_of(tr):
    return len(tr["events"][-1]["post"]["nodes"])


def gadget_tasks(prefix: str, opsets: list[list[dict]], only: list[str] | None = None):
    tasks = []
    for name, tt in gen.gadget_networks().items():
        if only and name not in only:
            continue
        for j, ops in enumerate(opsets):
            tasks.append({"tid": f"{prefix}{name}_{j}", "tt": tt, "ops": ops, "meta": f"gadget:{name}"})
    return tasks


# ------------------------------------------------------------------------------------------------
def c02(res: Result):
    q = res.tier == Q
    rng = random.Random(res.seed + 2)
    invs_mc = ["Inv_WF", "Inv_PartialFaithful", "Inv_FullExact", "Inv_MinExact"]
    recs = run_mc(res, "full", ["exp", "bfs", "dfs"], 1 if q else 2, [], [1000], invs_mc, 1)
    full = [r for r in recs if r["hist"][-1][0] in ("bfs", "dfs") and r["hist"][-1][1] == 1]
    tasks = tasks_from_emitted(full, rng, 600 if q else 5000, "m")
    for i, tt in enumerate(gen.network_pool(rng, 500 if q else 6000, [3, 3, 4, 4, 5] if q else [3, 4, 4, 5, 5, 6])):
        tasks.append({"tid": f"r{i}", "tt": tt, "ops": [rng.choice([FULL_BFS, FULL_DFS])], "meta": "random-net full expansion"})
    tasks += gadget_tasks("g", [[FULL_BFS], [FULL_DFS]])
    invs = ["Inv_STRUCT", "Inv_XL", "Inv_RET", "Inv_WF", "Inv_PartialFaithful", "Inv_FullExact", "Inv_MinExact"]
    res.cov["rule"] = ("TLC explores BFS/DFS/single expansions on all 256 two-variable networks; the real library runs a full "
                       "BFS or DFS on those and on random 3-6 variable networks (sources, constants, non-monotonic functions); "
                       "TLC recomputes the full hierarchy of percolated trap spaces from the truth tables and compares nodes, "
                       "edges and motif lists. Non-trivial: distinct (network, call) whose diagram has at least 3 nodes.")
    execute_and_validate(res, tasks, invs, "full", lambda tr: nodes_of(tr) >= 3)
    res.cov["exhaustive"] = False


def c04(res: Result):
    q = res.tier == Q
    rng = random.Random(res.seed + 4)
    ops = ["exp", "bfs", "dfs", "min", "tgt", "aseeds"]
    invs_mc = ["Inv_WF", "Inv_PartialFaithful", "Inv_PlainOnly", "Inv_FullExact", "Inv_ASeedsSound"]
    recs = run_mc(res, "plain", ops, 2 if q else 3, [0, 2, 3] if q else [0, 1, 2, 3], [1000], invs_mc, 1)
    # (min with skip is part of the alphabet of MC_SD; plain histories are those without it)
    recs = [r for r in recs if not any(h[0] == "min" and h[3] for h in r["hist"])]
    tasks = tasks_from_emitted(recs, rng, 1500 if q else 20000, "m", tail=[FULL_BFS])
    tasks += random_tasks(rng, 500 if q else 6000, [3, 3, 4, 4, 5] if q else [3, 4, 4, 5, 5, 6],
                          gen.PLAIN_KINDS + ["blockplain"], (1, 4), "r", tail=[FULL_BFS])
    invs = ["Inv_STRUCT", "Inv_XL", "Inv_RET", "Inv_ORACLE", "Inv_WF", "Inv_PartialFaithful", "Inv_PlainOnly", "Inv_FullExact"]
    res.cov["rule"] = ("Histories of plain expansion calls (single node, BFS, DFS, minimal-space, attractor-seed, target-directed, block "
                       "without source shortcut; all start nodes, size/level/stack limits 0..3 and none): every abstract idle state of the "
                       "TLC model (all 256 two-variable networks, call depth <= 2 quick / 3 thorough) yields one history that is replayed in "
                       "the library, followed by a full BFS; plus random histories on 3-6 variable networks. Every event is recomputed by TLC. "
                       "Non-trivial: distinct (network, history) with >= 2 calls and >= 3 nodes.")
    execute_and_validate(res, tasks, invs, "plain", lambda tr: nodes_of(tr) >= 3 and len(tr["events"]) >= 3)


def c20(res: Result):
    q = res.tier == Q
    rng = random.Random(res.seed + 20)
    ops = ["exp", "bfs", "dfs", "min", "tgt", "skipmin", "skiprem"]
    invs_mc = ["Inv_WF", "Inv_DepthExact"]
    recs = run_mc(res, "meta", ops, 2, [0, 2, 3], [1000], invs_mc, 1)
    tasks = tasks_from_emitted(recs, rng, 1200 if q else 15000, "m")
    tasks += random_tasks(rng, 600 if q else 8000, [3, 3, 4, 4, 5] if q else [3, 4, 4, 5, 5, 6],
                          gen.PLAIN_KINDS + ["skipmin", "skiprem", "minskip", "pickle"], (1, 5), "r")
    tasks += gadget_tasks("g", [[FULL_BFS], [FULL_DFS], [{"op": "exp", "n": 1}, {"op": "exp", "n": 3}, FULL_BFS]])
    invs = ["Inv_IDS", "Inv_DEPTHC", "Inv_IDX", "Inv_DepthExact", "Inv_IndexExact"]
    res.cov["rule"] = ("Same history generator as C04 extended with skip operations and pickling; after every call TLC compares ids, order, "
                       "depths and the key index with the model and checks depth = longest root path, depth() = max, ids contiguous, "
                       "len() = count on the logged state. Non-trivial: distinct (network, history) reaching a node with two parents or depth >= 2.")

    def nt(tr):
        post = tr["events"][-1]["post"]
        indeg = {}
        for e in post["edges"]:
            indeg[e["c"]] = indeg.get(e["c"], 0) + 1
        return post["depth"] >= 2 or any(v >= 2 for v in indeg.values())
    execute_and_validate(res, tasks, invs, "meta", nt)


STRATEGY_TAILS = [
    [FULL_BFS], [FULL_DFS],
    [{"op": "min", "n": 1, "size": -1, "skip": False}],
    [{"op": "min", "n": 1, "size": -1, "skip": True}],
    [{"op": "aseeds", "size": -1}],
]


def c03(res: Result):
    q = res.tier == Q
    rng = random.Random(res.seed + 3)
    ops = ["exp", "bfs", "dfs", "min", "aseeds", "skiprem", "skipmin"]
    recs = run_mc(res, "min", ops, 2, [0, 2, 3], [1000], ["Inv_WF", "Inv_MinExact", "Inv_PartialFaithful"], 1)
    tasks = []
    sample = rng.sample(recs, min(len(recs), 1200 if q else 12000))
    for i, r in enumerate(sample):
        tasks += tasks_from_emitted([r], rng, 1, f"m{i}_", tail=rng.choice(STRATEGY_TAILS + [[{"op": "skiprem"}]]))
    pool = gen.network_pool(rng, 500 if q else 6000, [3, 3, 4, 4, 5] if q else [3, 4, 4, 5, 5, 6])
    for i, tt in enumerate(pool):
        tail = rng.choice(STRATEGY_TAILS + [[{"op": "skiprem"}]])
        tasks.append({"tid": f"r{i}", "tt": tt, "hseed": rng.randrange(1 << 30), "kinds": gen.PLAIN_KINDS,
                      "steps": rng.randint(0, 3), "tail": tail, "meta": "random prefix + strategy"})
        # block / scc from the root of a fresh diagram, all option combinations
        if i % 2 == 0:
            op = rng.choice([
                {"op": "block", "maa": rng.random() < 0.5, "optsrc": rng.random() < 0.5, "exact": rng.random() < 0.3, "size": -1},
                {"op": "scc", "maa": rng.random() < 0.5},
                {"op": "build"}])
            tasks.append({"tid": f"s{i}", "tt": tt, "ops": [op], "meta": "fresh block/scc/build"})
    invs = ["Inv_MinExact", "Inv_WF"]
    res.cov["rule"] = ("Random and TLC-generated prefixes of plain expansion calls (with limits) followed by a strategy from the root "
                       "(BFS, DFS, minimal-space with/without skip_ignored, attractor-seed, skip_remaining), and block / source-SCC / build on "
                       "fresh diagrams with all option combinations; TLC computes the inclusion-minimal trap spaces from the truth tables and "
                       "compares with the diagram's minimal nodes (none missing, spurious or duplicated). Non-trivial: distinct cases with >= 2 minimal trap spaces.")

    def nt(tr):
        post = tr["events"][-1]["post"]
        parents = {e["p"] for e in post["edges"]}
        return sum(1 for i, n in enumerate(post["nodes"]) if n["expanded"] and (i + 1) not in parents) >= 2
    execute_and_validate(res, tasks, invs, "min", nt)


def c14(res: Result):
    q = res.tier == Q
    rng = random.Random(res.seed + 14)
    ops = ["exp", "bfs", "skipmin", "skiprem", "min", "cand", "seeds", "sets", "reclaim"]
    recs = run_mc(res, "cache", ops, 2, [2], [1000], ["Inv_WF", "Inv_CacheFresh", "Inv_PartialFaithful"], 2)
    recs = [r for r in recs if any(h[0] in ("cand", "seeds", "sets") for h in r["hist"][:-1])]
    tasks = tasks_from_emitted(recs, rng, 1500 if q else 20000, "m")
    kinds = ["exp", "bfs", "dfs", "min", "minskip", "skipmin", "skiprem", "cand", "seeds", "seeds", "sets", "reclaim", "pickle", "block", "scc", "aseeds"]
    tasks += random_tasks(rng, 600 if q else 8000, [3, 3, 4, 4, 5], kinds, (2, 6), "r")
    tasks += gadget_tasks("g", [[{"op": "seeds", "n": 1}, {"op": "skipmin", "n": 1}],
                                [{"op": "seeds", "n": 1}, {"op": "skiprem"}],
                                [{"op": "sets", "n": 1}, {"op": "min", "n": 1, "size": -1, "skip": True}],
                                [{"op": "seeds", "n": 1}, {"op": "scc", "maa": False}],
                                [{"op": "seeds", "n": 1}, {"op": "scc", "maa": True}],
                                [{"op": "seeds", "n": 1}, {"op": "block", "maa": True, "optsrc": True, "exact": False, "size": -1}],
                                [{"op": "exp", "n": 1}, {"op": "seeds", "n": 2}, {"op": "seeds", "n": 3}, {"op": "block", "maa": False, "optsrc": True, "exact": False, "size": -1}]])
    invs = ["Inv_CACHE", "Inv_CacheFresh", "Inv_OUT"]
    res.cov["rule"] = ("Histories interleaving attractor queries (candidates / seeds / sets, also on unexpanded nodes) with every way of giving "
                       "a node successors (single expansion, BFS/DFS, minimal-space with skip_ignored, skip_to_minimal, skip_remaining, block with "
                       "source shortcut, SCC attachment), reclamation and pickling. After every call TLC checks each cached list against the "
                       "attractors of the node's *current* successors. Non-trivial: distinct histories in which a node with cached data later gets successors.")

    def nt(tr):
        cached = set()
        for e in tr["events"]:
            for i, n in enumerate(e["post"]["nodes"]):
                if not n["expanded"] and (n["cand"]["k"] or n["seeds"]["k"] or n["sets"]["k"]):
                    cached.add(i)
                if n["expanded"] and i in cached:
                    return True
        return False
    execute_and_validate(res, tasks, invs, "cache", nt)


COMPLETE_DEFAULT = [[{"op": "build"}],
                    [{"op": "block", "maa": True, "optsrc": True, "exact": False, "size": -1}],
                    [FULL_BFS], [FULL_DFS], [{"op": "scc", "maa": True}], [{"op": "aseeds", "size": -1}]]


def c01(res: Result):
    q = res.tier == Q
    rng = random.Random(res.seed + 1)
    recs = run_mc(res, "seeds", ["bfs", "dfs", "aseeds", "seeds"], 3 if q else 4, [], [1000], ["Inv_WF", "Inv_Seeds", "Inv_CacheFresh"], None)
    tasks = []
    nets2 = list(bn.all_networks(2))
    for i, tt in enumerate(nets2 if not q else rng.sample(nets2, 128)):
        tasks.append({"tid": f"a{i}", "tt": tt, "ops": rng.choice(COMPLETE_DEFAULT) + [{"op": "expseeds"}], "meta": "two-variable network"})
    pool = gen.network_pool(rng, 450 if q else 6000, [3, 3, 4, 4, 5] if q else [3, 4, 4, 5, 5, 6])
    for i, tt in enumerate(pool):
        tasks.append({"tid": f"r{i}", "tt": tt, "ops": COMPLETE_DEFAULT[i % 6] + [{"op": "expseeds"}], "meta": "random net"})
    for j, strat in enumerate(COMPLETE_DEFAULT):
        tasks += gadget_tasks(f"g{j}", [strat + [{"op": "expseeds"}]])
    invs = ["Inv_C01", "Inv_WF", "Inv_HANG"]
    res.cov["rule"] = ("Each of the six complete strategies with default settings on a fresh diagram, then seeds for every expanded node; TLC computes "
                       "the attractors (terminal SCCs of the asynchronous transition graph) from the truth tables and checks the bijection and that "
                       "each seed lies in an attractor inside its node and none of its successors. Non-trivial: networks with >= 2 attractors or an "
                       "attractor outside every minimal trap space.")

    def nt(tr):
        seeds = sum(len(n["seeds"]["v"]) for n in tr["events"][-1]["post"]["nodes"] if n["seeds"]["k"])
        return seeds >= 2
    execute_and_validate(res, tasks, invs, "seeds", nt)


def c05(res: Result):
    q = res.tier == Q
    rng = random.Random(res.seed + 5)
    ops = ["exp", "bfs", "min", "skipmin", "skiprem", "seeds"]
    recs = run_mc(res, "skip", ops, 3 if q else 4, [2], [1000], ["Inv_WF", "Inv_Seeds"], None)
    tasks = []
    pool = gen.network_pool(rng, 700 if q else 8000, [2, 3, 3, 4, 4, 5] if q else [3, 4, 4, 5, 5, 6])
    for i, tt in enumerate(pool):
        pre = rng.choice([[{"op": "bfs", "n": 1, "lvl": rng.choice([-1, 0, 1]), "size": rng.choice([1, 2, 3, 4, 6])}],
                          [{"op": "dfs", "n": 1, "stk": rng.choice([-1, 0, 1]), "size": rng.choice([1, 2, 3, 4, 6])}],
                          [{"op": "min", "n": 1, "size": rng.choice([1, 2, 3, 5]), "skip": rng.random() < 0.7}],
                          [{"op": "exp", "n": 1}], [],
                          [{"op": "block", "maa": True, "optsrc": True, "exact": False, "size": rng.choice([2, 3, 5])}]])
        skip = rng.choice([[{"op": "skiprem"}], [{"op": "skipmin", "n": rng.randint(1, 4)}, {"op": "skiprem"}],
                           [{"op": "min", "n": 1, "size": -1, "skip": True}, {"op": "skiprem"}]])
        tasks.append({"tid": f"r{i}", "tt": tt, "ops": pre + skip + [{"op": "allseeds"}], "meta": "partial + skip + all seeds"})
    tasks += gadget_tasks("k", [[{"op": "exp", "n": 1}, {"op": "exp", "n": 3}, {"op": "exp", "n": 4}, {"op": "skiprem"}, {"op": "allseeds"}]],
                          only=["xnor_latch", "xnor_2latch", "xnor_3latch"])
    tasks += gadget_tasks("g", [[{"op": "exp", "n": 1}, {"op": "skiprem"}, {"op": "allseeds"}],
                                [{"op": "skiprem"}, {"op": "allseeds"}],
                                [{"op": "bfs", "n": 1, "lvl": 0, "size": -1}, {"op": "skipmin", "n": 2}, {"op": "skiprem"}, {"op": "allseeds"}]])
    invs = ["Inv_SeedsAll", "Inv_WF", "Inv_HANG"]
    res.cov["rule"] = ("Expansion stopped early (BFS/DFS/minimal-space/block with size, level and stack limits), remaining nodes skipped "
                       "(skip_remaining, skip_to_minimal, skip_ignored), seeds requested for all nodes in id order; TLC checks every attractor is "
                       "reported at least once, every seed is in an attractor inside its node, and exactly once when the network has no "
                       "motif-avoidant attractor. Non-trivial: distinct histories that create at least one skip node.")

    def nt(tr):
        return any(n["skipped"] for n in tr["events"][-1]["post"]["nodes"])
    execute_and_validate(res, tasks, invs, "skip", nt)


CFG_GRID = [{"maxm": 100000, "candlim": c, "rsthr": t, "simbudget": b, "nfvsthr": f}
            for c in (0, 1, 2, 3, 100000) for t in (0, 1, 2, 1000) for b in (0, 1, 1000) for f in (0, 2000)]


def c08(res: Result):
    q = res.tier == Q
    rng = random.Random(res.seed + 8)
    recs = run_mc(res, "cand", ["exp", "skipmin", "cand"], 3, [], [1000], ["Inv_WF", "Inv_CacheFresh"], None)
    tasks = []
    pool = gen.network_pool(rng, 700 if q else 9000, [2, 2, 3, 3, 4, 4, 5] if q else [2, 3, 4, 4, 5, 5, 6])
    for i, tt in enumerate(pool):
        pre = rng.choice([[], [{"op": "exp", "n": 1}], [{"op": "bfs", "n": 1, "lvl": rng.choice([0, 1]), "size": -1}],
                          [{"op": "exp", "n": 1}, {"op": "skipmin", "n": 2}], [{"op": "skipmin", "n": 1}], [FULL_BFS]])
        qs = [{"op": "cand", "n": k, "greedy": rng.random() < 0.5, "sim": rng.random() < 0.5} for k in (1, 2, 3, 4, 5)]
        rng.shuffle(qs)
        cfg = rng.choice(CFG_GRID) if rng.random() < 0.7 else None
        t = {"tid": f"r{i}", "tt": tt, "ops": pre + qs, "meta": "candidates under option/config grid"}
        if cfg:
            t["cfg"] = cfg
        tasks.append(t)
    for gi, (g, o) in enumerate([(a, b) for a in (True, False) for b in (True, False)]):
        tasks += gadget_tasks(f"g{gi}", [[{"op": "cand", "n": 1, "greedy": g, "sim": o}],
                                         [{"op": "exp", "n": 1}, {"op": "cand", "n": 1, "greedy": g, "sim": o}, {"op": "cand", "n": 2, "greedy": g, "sim": o}]])
    invs = ["Inv_Covers", "Inv_RET", "Inv_HANG"]
    res.cov["rule"] = ("node_attractor_candidates on expanded, unexpanded and skipped nodes under all 4 option combinations and a grid of "
                       "configuration values (candidate limit and optimisation threshold in {0,1,2,3,default}, simulation budget {0,1,default}, "
                       "NFVS threshold {0,default}); every returned list must consist of full states inside the node that hit every attractor of "
                       "the node not inside a successor (TLC recomputes the attractors); otherwise the call must have raised and cached nothing. "
                       "Non-trivial: distinct cases where some node has >= 2 own attractors or a non-default configuration is in force.")

    def nt(tr):
        c = tr["cfg"]
        return c["candlim"] != 100000 or c["rsthr"] != 1000 or any(len(n["cand"]["v"]) >= 2 for n in tr["events"][-1]["post"]["nodes"])
    execute_and_validate(res, tasks, invs, "cand", nt)


def c12(res: Result):
    q = res.tier == Q
    rng = random.Random(res.seed + 12)
    recs = run_mc(res, "sets", ["exp", "cand", "seeds", "sets", "reclaim"], 3, [], [1000], ["Inv_WF", "Inv_CacheFresh"], None)
    tasks = []
    pool = gen.network_pool(rng, 700 if q else 9000, [2, 3, 3, 4, 4, 5] if q else [3, 4, 4, 5, 5, 6])
    for i, tt in enumerate(pool):
        pre = rng.choice([[], [{"op": "exp", "n": 1}], [FULL_BFS], [{"op": "bfs", "n": 1, "lvl": 0, "size": -1}]])
        qs = []
        for k in (1, 2, 3, 4):
            seq = rng.choice([["sets"], ["seeds", "sets"], ["cand", "seeds", "sets"], ["seeds", "reclaim", "sets"],
                              ["cand", "reclaim", "sets"], ["sets", "pickle", "sets"]])
            for o in seq:
                qs.append({"op": o, "n": k, "fallback": False})
        t = {"tid": f"r{i}", "tt": tt, "ops": pre + qs, "meta": "sets in various orders"}
        tasks.append(t)
        # the symbolic fallback: force the candidate pipeline to fail with a tiny candidate limit
        if i % 3 == 0:
            tasks.append({"tid": f"f{i}", "tt": tt, "cfg": {"maxm": 100000, "candlim": rng.choice([0, 1]), "rsthr": 1000, "simbudget": 1000, "nfvsthr": 2000},
                          "ops": pre + [{"op": "seeds", "n": k, "fallback": True} for k in (1, 2, 3)] + [{"op": "sets", "n": k} for k in (1, 2, 3)],
                          "meta": "symbolic fallback (candidate limit forces RuntimeError)"})
    invs = ["Inv_SetsFresh", "Inv_CacheFresh", "Inv_CACHE", "Inv_OUT", "Inv_HANG"]
    res.cov["rule"] = ("Attractor sets requested before/after seeds and candidates, after reclamation and pickling, on expanded and unexpanded "
                       "nodes; and seeds via the symbolic fallback (forced by a tiny candidate limit). TLC checks that set i is exactly the "
                       "attractor containing seed i, over all variables, and that fallback seeds are exactly the node's own attractors. "
                       "Non-trivial: distinct cases with a complex (non-singleton) attractor set or a fallback run.")

    def nt(tr):
        if any(e["op"] == "seeds" and e["fallback"] and not e["raised"] for e in tr["events"]):
            return True
        return any(len(s) > 1 for n in tr["events"][-1]["post"]["nodes"] for s in n["sets"]["v"])
    execute_and_validate(res, tasks, invs, "sets", nt)


CHECKS = {"C01": c01, "C02": c02, "C03": c03, "C04": c04, "C05": c05, "C08": c08, "C12": c12, "C14": c14, "C20": c20}


def run(pid: str, tier: str, seed: int) -> int:
    if pid not in CHECKS:
        print(f"no check for {pid}")
        return 2
    shutil.rmtree(os.path.join(sdcheck.WORK, pid), ignore_errors=True)
    res = Result(pid, tier, seed)
    res.assumptions = ["TLC 1.8 and the CommunityModules Json reader", "BoolNet.tla definitions (theorem-checked in MC_Theorems)",
                       "harness: truth-table renderer (round-trip self-test), projection, recorder",
                       "networks up to 6 variables; histories up to the stated depth"]
    CHECKS[pid](res)
    return res.finish()


def replay(pid: str, path: str) -> int:
    """re-execute the recorded history of a violation against the current code and re-validate it"""
    tr = json.load(open(os.path.join(path, "trace.json")))
    verdict = json.load(open(os.path.join(path, "verdict.json")))
    ops = [{k: v for k, v in e.items() if k not in ("post", "ret", "out", "raised", "exc", "xl", "mts", "orc", "solver_calls")}
           for e in tr["events"][1:]]
    wd = os.path.join(sdcheck.WORK, pid, "replay")
    shutil.rmtree(wd, ignore_errors=True)
    os.makedirs(wd)
    # truth tables are stored in code order = harness order for generated names
    task = {"tid": tr["tid"], "tt": tr["net"]["f"], "ops": ops, "cfg": tr["cfg"], "names": tr["names"]}
    tf = os.path.join(wd, "traces.ndjson")
    gen.record_many([task], tf, procs=1)
    invs = sorted({f["invariant"] for f in verdict["failing"]})
    out = tlc.validate_traces(tf, "SDTrace", ["Inv_" + i if not i.startswith("Inv_") else i for i in invs], wd, shards=1)
    for v in out["violations"]:
        print("still failing:", v)
    if out["violations"]:
        print(f"VIOLATION property={pid} replay={path}")
        return 1
    print("replay: the recorded history is now accepted")
    return 0
