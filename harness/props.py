"""
Per-property check definitions.  Every property is decided with the TLA+ machinery: TLC model
checks the specification and TLC validates what the implementation did.
"""
from __future__ import annotations

import json
import os
import random
import shutil
import sys

sys.path.insert(0, os.path.dirname(__file__))
import bn  # noqa: E402
import gen  # noqa: E402
import sdcheck  # noqa: E402
import tlc  # noqa: E402
from sdcheck import Result, execute_and_validate, random_tasks, run_mc, tasks_from_emitted  # noqa: E402

Q = "quick"
FULL_BFS = {"op": "bfs", "n": 1, "lvl": -1, "size": -1}
FULL_DFS = {"op": "dfs", "n": 1, "stk": -1, "size": -1}


def nodes_of(tr):
    return len(tr["events"][-1]["post"]["nodes"])


def gadget_tasks(prefix: str, opsets: list[list[dict]], only: list[str] | None = None):
    tasks = []
    for name, tt in gen.gadget_networks().items():
        if only and name not in only:
            continue
        for j, ops in enumerate(opsets):
            tasks.append({"tid": f"{prefix}{name}_{j}", "tt": tt, "ops": ops, "meta": f"gadget:{name}"})
    return tasks


# ------------------------------------------------------------------------------------------------
def c02(res: Result):
    q = res.tier == Q
    rng = random.Random(res.seed + 2)
    invs_mc = ["Inv_WF", "Inv_PartialFaithful", "Inv_FullExact", "Inv_MinExact"]
    recs = run_mc(res, "full", ["exp", "bfs", "dfs"], 1 if q else 2, [], [1000], invs_mc, 1)
    full = [r for r in recs if r["hist"][-1][0] in ("bfs", "dfs") and r["hist"][-1][1] == 1]
    tasks = tasks_from_emitted(full, rng, 600 if q else 5000, "m")
    for i, tt in enumerate(gen.network_pool(rng, 500 if q else 6000, [3, 3, 4, 4, 5] if q else [3, 4, 4, 5, 5, 6])):
        tasks.append({"tid": f"r{i}", "tt": tt, "ops": [rng.choice([FULL_BFS, FULL_DFS])], "meta": "random-net full expansion"})
    tasks += gadget_tasks("g", [[FULL_BFS], [FULL_DFS]])
    invs = ["Inv_STRUCT", "Inv_XL", "Inv_RET", "Inv_WF", "Inv_PartialFaithful", "Inv_FullExact", "Inv_MinExact"]
    res.cov["rule"] = ("TLC explores BFS/DFS/single expansions on all 256 two-variable networks; the real library runs a full "
                       "BFS or DFS on those and on random 3-6 variable networks (sources, constants, non-monotonic functions); "
                       "TLC recomputes the full hierarchy of percolated trap spaces from the truth tables and compares nodes, "
                       "edges and motif lists. Non-trivial: distinct (network, call) whose diagram has at least 3 nodes.")
    execute_and_validate(res, tasks, invs, "full", lambda tr: nodes_of(tr) >= 3)
    res.cov["exhaustive"] = False


def c04(res: Result):
    q = res.tier == Q
    rng = random.Random(res.seed + 4)
    ops = ["exp", "bfs", "dfs", "min", "tgt", "aseeds"]
    invs_mc = ["Inv_WF", "Inv_PartialFaithful", "Inv_PlainOnly", "Inv_FullExact", "Inv_ASeedsSound"]
    recs = run_mc(res, "plain", ops, 2 if q else 3, [0, 2, 3] if q else [0, 1, 2, 3], [1000], invs_mc, 1)
    # (min with skip is part of the alphabet of MC_SD; plain histories are those without it)
    recs = [r for r in recs if not any(h[0] == "min" and h[3] for h in r["hist"])]
    tasks = tasks_from_emitted(recs, rng, 1500 if q else 20000, "m", tail=[FULL_BFS])
    tasks += random_tasks(rng, 500 if q else 6000, [3, 3, 4, 4, 5] if q else [3, 4, 4, 5, 5, 6],
                          gen.PLAIN_KINDS + ["blockplain"], (1, 4), "r", tail=[FULL_BFS])
    invs = ["Inv_STRUCT", "Inv_XL", "Inv_RET", "Inv_ORACLE", "Inv_WF", "Inv_PartialFaithful", "Inv_PlainOnly", "Inv_FullExact"]
    res.cov["rule"] = ("Histories of plain expansion calls (single node, BFS, DFS, minimal-space, attractor-seed, target-directed, block "
                       "without source shortcut; all start nodes, size/level/stack limits 0..3 and none): every abstract idle state of the "
                       "TLC model (all 256 two-variable networks, call depth <= 2 quick / 3 thorough) yields one history that is replayed in "
                       "the library, followed by a full BFS; plus random histories on 3-6 variable networks. Every event is recomputed by TLC. "
                       "Non-trivial: distinct (network, history) with >= 2 calls and >= 3 nodes.")
    execute_and_validate(res, tasks, invs, "plain", lambda tr: nodes_of(tr) >= 3 and len(tr["events"]) >= 3)


def c20(res: Result):
    q = res.tier == Q
    rng = random.Random(res.seed + 20)
    ops = ["exp", "bfs", "dfs", "min", "tgt", "skipmin", "skiprem"]
    invs_mc = ["Inv_WF", "Inv_DepthExact"]
    recs = run_mc(res, "meta", ops, 2, [0, 2, 3], [1000], invs_mc, 1)
    tasks = tasks_from_emitted(recs, rng, 1200 if q else 15000, "m")
    tasks += random_tasks(rng, 600 if q else 8000, [3, 3, 4, 4, 5] if q else [3, 4, 4, 5, 5, 6],
                          gen.PLAIN_KINDS + ["skipmin", "skiprem", "minskip", "pickle"], (1, 5), "r")
    tasks += gadget_tasks("g", [[FULL_BFS], [FULL_DFS], [{"op": "exp", "n": 1}, {"op": "exp", "n": 3}, FULL_BFS]])
    invs = ["Inv_IDS", "Inv_DEPTHC", "Inv_IDX", "Inv_DepthExact", "Inv_IndexExact"]
    res.cov["rule"] = ("Same history generator as C04 extended with skip operations and pickling; after every call TLC compares ids, order, "
                       "depths and the key index with the model and checks depth = longest root path, depth() = max, ids contiguous, "
                       "len() = count on the logged state. Non-trivial: distinct (network, history) reaching a node with two parents or depth >= 2.")

    def nt(tr):
        post = tr["events"][-1]["post"]
        indeg = {}
        for e in post["edges"]:
            indeg[e["c"]] = indeg.get(e["c"], 0) + 1
        return post["depth"] >= 2 or any(v >= 2 for v in indeg.values())
    execute_and_validate(res, tasks, invs, "meta", nt)


STRATEGY_TAILS = [
    [FULL_BFS], [FULL_DFS],
    [{"op": "min", "n": 1, "size": -1, "skip": False}],
    [{"op": "min", "n": 1, "size": -1, "skip": True}],
    [{"op": "aseeds", "size": -1}],
]


def c03(res: Result):
    q = res.tier == Q
    rng = random.Random(res.seed + 3)
    ops = ["exp", "bfs", "dfs", "min", "aseeds", "skiprem", "skipmin"]
    recs = run_mc(res, "min", ops, 2, [0, 2, 3], [1000], ["Inv_WF", "Inv_MinExact", "Inv_PartialFaithful"], 1)
    tasks = []
    sample = rng.sample(recs, min(len(recs), 1200 if q else 12000))
    for i, r in enumerate(sample):
        tasks += tasks_from_emitted([r], rng, 1, f"m{i}_", tail=rng.choice(STRATEGY_TAILS + [[{"op": "skiprem"}]]))
    pool = gen.network_pool(rng, 500 if q else 6000, [3, 3, 4, 4, 5] if q else [3, 4, 4, 5, 5, 6])
    for i, tt in enumerate(pool):
        tail = rng.choice(STRATEGY_TAILS + [[{"op": "skiprem"}]])
        tasks.append({"tid": f"r{i}", "tt": tt, "hseed": rng.randrange(1 << 30), "kinds": gen.PLAIN_KINDS,
                      "steps": rng.randint(0, 3), "tail": tail, "meta": "random prefix + strategy"})
        # block / scc from the root of a fresh diagram, all option combinations
        if i % 2 == 0:
            op = rng.choice([
                {"op": "block", "maa": rng.random() < 0.5, "optsrc": rng.random() < 0.5, "exact": rng.random() < 0.3, "size": -1},
                {"op": "scc", "maa": rng.random() < 0.5},
                {"op": "build"}])
            tasks.append({"tid": f"s{i}", "tt": tt, "ops": [op], "meta": "fresh block/scc/build"})
    invs = ["Inv_MinExact", "Inv_WF"]
    res.cov["rule"] = ("Random and TLC-generated prefixes of plain expansion calls (with limits) followed by a strategy from the root "
                       "(BFS, DFS, minimal-space with/without skip_ignored, attractor-seed, skip_remaining), and block / source-SCC / build on "
                       "fresh diagrams with all option combinations; TLC computes the inclusion-minimal trap spaces from the truth tables and "
                       "compares with the diagram's minimal nodes (none missing, spurious or duplicated). Non-trivial: distinct cases with >= 2 minimal trap spaces.")

    def nt(tr):
        post = tr["events"][-1]["post"]
        parents = {e["p"] for e in post["edges"]}
        return sum(1 for i, n in enumerate(post["nodes"]) if n["expanded"] and (i + 1) not in parents) >= 2
    execute_and_validate(res, tasks, invs, "min", nt)


def c14(res: Result):
    q = res.tier == Q
    rng = random.Random(res.seed + 14)
    ops = ["exp", "bfs", "skipmin", "skiprem", "min", "cand", "seeds", "sets", "reclaim"]
    recs = run_mc(res, "cache", ops, 2, [2], [1000], ["Inv_WF", "Inv_CacheFresh", "Inv_PartialFaithful"], 2)
    recs = [r for r in recs if any(h[0] in ("cand", "seeds", "sets") for h in r["hist"][:-1])]
    tasks = tasks_from_emitted(recs, rng, 1500 if q else 20000, "m")
    kinds = ["exp", "bfs", "dfs", "min", "minskip", "skipmin", "skiprem", "cand", "seeds", "seeds", "sets", "reclaim", "pickle", "block", "scc", "aseeds"]
    tasks += random_tasks(rng, 600 if q else 8000, [3, 3, 4, 4, 5], kinds, (2, 6), "r")
    tasks += gadget_tasks("g", [[{"op": "seeds", "n": 1}, {"op": "skipmin", "n": 1}],
                                [{"op": "seeds", "n": 1}, {"op": "skiprem"}],
                                [{"op": "sets", "n": 1}, {"op": "min", "n": 1, "size": -1, "skip": True}],
                                [{"op": "seeds", "n": 1}, {"op": "scc", "maa": False}],
                                [{"op": "seeds", "n": 1}, {"op": "scc", "maa": True}],
                                [{"op": "seeds", "n": 1}, {"op": "block", "maa": True, "optsrc": True, "exact": False, "size": -1}],
                                [{"op": "exp", "n": 1}, {"op": "seeds", "n": 2}, {"op": "seeds", "n": 3}, {"op": "block", "maa": False, "optsrc": True, "exact": False, "size": -1}]])
    invs = ["Inv_CACHE", "Inv_CacheFresh", "Inv_OUT"]
    res.cov["rule"] = ("Histories interleaving attractor queries (candidates / seeds / sets, also on unexpanded nodes) with every way of giving "
                       "a node successors (single expansion, BFS/DFS, minimal-space with skip_ignored, skip_to_minimal, skip_remaining, block with "
                       "source shortcut, SCC attachment), reclamation and pickling. After every call TLC checks each cached list against the "
                       "attractors of the node's *current* successors. Non-trivial: distinct histories in which a node with cached data later gets successors.")

    def nt(tr):
        cached = set()
        for e in tr["events"]:
            for i, n in enumerate(e["post"]["nodes"]):
                if not n["expanded"] and (n["cand"]["k"] or n["seeds"]["k"] or n["sets"]["k"]):
                    cached.add(i)
                if n["expanded"] and i in cached:
                    return True
        return False
    execute_and_validate(res, tasks, invs, "cache", nt)


COMPLETE_DEFAULT = [[{"op": "build"}],
                    [{"op": "block", "maa": True, "optsrc": True, "exact": False, "size": -1}],
                    [FULL_BFS], [FULL_DFS], [{"op": "scc", "maa": True}], [{"op": "aseeds", "size": -1}]]


def c01(res: Result):
    q = res.tier == Q
    rng = random.Random(res.seed + 1)
    recs = run_mc(res, "seeds", ["bfs", "dfs", "aseeds", "seeds"], 3 if q else 4, [], [1000], ["Inv_WF", "Inv_Seeds", "Inv_CacheFresh"], None)
    tasks = []
    nets2 = list(bn.all_networks(2))
    for i, tt in enumerate(nets2 if not q else rng.sample(nets2, 128)):
        tasks.append({"tid": f"a{i}", "tt": tt, "ops": rng.choice(COMPLETE_DEFAULT) + [{"op": "expseeds"}], "meta": "two-variable network"})
    pool = gen.network_pool(rng, 450 if q else 6000, [3, 3, 4, 4, 5] if q else [3, 4, 4, 5, 5, 6])
    for i, tt in enumerate(pool):
        tasks.append({"tid": f"r{i}", "tt": tt, "ops": COMPLETE_DEFAULT[i % 6] + [{"op": "expseeds"}], "meta": "random net"})
    for j, strat in enumerate(COMPLETE_DEFAULT):
        tasks += gadget_tasks(f"g{j}", [strat + [{"op": "expseeds"}]])
    invs = ["Inv_C01", "Inv_WF", "Inv_HANG"]
    res.cov["rule"] = ("Each of the six complete strategies with default settings on a fresh diagram, then seeds for every expanded node; TLC computes "
                       "the attractors (terminal SCCs of the asynchronous transition graph) from the truth tables and checks the bijection and that "
                       "each seed lies in an attractor inside its node and none of its successors. Non-trivial: networks with >= 2 attractors or an "
                       "attractor outside every minimal trap space.")

    def nt(tr):
        seeds = sum(len(n["seeds"]["v"]) for n in tr["events"][-1]["post"]["nodes"] if n["seeds"]["k"])
        return seeds >= 2
    execute_and_validate(res, tasks, invs, "seeds", nt)


def c05(res: Result):
    q = res.tier == Q
    rng = random.Random(res.seed + 5)
    ops = ["exp", "bfs", "min", "skipmin", "skiprem", "seeds"]
    recs = run_mc(res, "skip", ops, 3 if q else 4, [2], [1000], ["Inv_WF", "Inv_Seeds"], None)
    tasks = []
    pool = gen.network_pool(rng, 700 if q else 8000, [2, 3, 3, 4, 4, 5] if q else [3, 4, 4, 5, 5, 6])
    for i, tt in enumerate(pool):
        pre = rng.choice([[{"op": "bfs", "n": 1, "lvl": rng.choice([-1, 0, 1]), "size": rng.choice([1, 2, 3, 4, 6])}],
                          [{"op": "dfs", "n": 1, "stk": rng.choice([-1, 0, 1]), "size": rng.choice([1, 2, 3, 4, 6])}],
                          [{"op": "min", "n": 1, "size": rng.choice([1, 2, 3, 5]), "skip": rng.random() < 0.7}],
                          [{"op": "exp", "n": 1}], [],
                          [{"op": "block", "maa": True, "optsrc": True, "exact": False, "size": rng.choice([2, 3, 5])}]])
        skip = rng.choice([[{"op": "skiprem"}], [{"op": "skipmin", "n": rng.randint(1, 4)}, {"op": "skiprem"}],
                           [{"op": "min", "n": 1, "size": -1, "skip": True}, {"op": "skiprem"}]])
        tasks.append({"tid": f"r{i}", "tt": tt, "ops": pre + skip + [{"op": "allseeds"}], "meta": "partial + skip + all seeds"})
    tasks += gadget_tasks("k", [[{"op": "exp", "n": 1}, {"op": "exp", "n": 3}, {"op": "exp", "n": 4}, {"op": "skiprem"}, {"op": "allseeds"}]],
                          only=["xnor_latch", "xnor_2latch", "xnor_3latch"])
    tasks += gadget_tasks("g", [[{"op": "exp", "n": 1}, {"op": "skiprem"}, {"op": "allseeds"}],
                                [{"op": "skiprem"}, {"op": "allseeds"}],
                                [{"op": "bfs", "n": 1, "lvl": 0, "size": -1}, {"op": "skipmin", "n": 2}, {"op": "skiprem"}, {"op": "allseeds"}]])
    invs = ["Inv_SeedsAll", "Inv_WF", "Inv_HANG"]
    res.cov["rule"] = ("Expansion stopped early (BFS/DFS/minimal-space/block with size, level and stack limits), remaining nodes skipped "
                       "(skip_remaining, skip_to_minimal, skip_ignored), seeds requested for all nodes in id order; TLC checks every attractor is "
                       "reported at least once, every seed is in an attractor inside its node, and exactly once when the network has no "
                       "motif-avoidant attractor. Non-trivial: distinct histories that create at least one skip node.")

    def nt(tr):
        return any(n["skipped"] for n in tr["events"][-1]["post"]["nodes"])
    execute_and_validate(res, tasks, invs, "skip", nt)


CFG_GRID = [{"maxm": 100000, "candlim": c, "rsthr": t, "simbudget": b, "nfvsthr": f}
            for c in (0, 1, 2, 3, 100000) for t in (0, 1, 2, 1000) for b in (0, 1, 1000) for f in (0, 2000)]


def c08(res: Result):
    q = res.tier == Q
    rng = random.Random(res.seed + 8)
    recs = run_mc(res, "cand", ["exp", "skipmin", "cand"], 3, [], [1000], ["Inv_WF", "Inv_CacheFresh"], None)
    tasks = []
    pool = gen.network_pool(rng, 700 if q else 9000, [2, 2, 3, 3, 4, 4, 5] if q else [2, 3, 4, 4, 5, 5, 6])
    for i, tt in enumerate(pool):
        pre = rng.choice([[], [{"op": "exp", "n": 1}], [{"op": "bfs", "n": 1, "lvl": rng.choice([0, 1]), "size": -1}],
                          [{"op": "exp", "n": 1}, {"op": "skipmin", "n": 2}], [{"op": "skipmin", "n": 1}], [FULL_BFS]])
        qs = [{"op": "cand", "n": k, "greedy": rng.random() < 0.5, "sim": rng.random() < 0.5} for k in (1, 2, 3, 4, 5)]
        rng.shuffle(qs)
        cfg = rng.choice(CFG_GRID) if rng.random() < 0.7 else None
        t = {"tid": f"r{i}", "tt": tt, "ops": pre + qs, "meta": "candidates under option/config grid"}
        if cfg:
            t["cfg"] = cfg
        tasks.append(t)
    for gi, (g, o) in enumerate([(a, b) for a in (True, False) for b in (True, False)]):
        tasks += gadget_tasks(f"g{gi}", [[{"op": "cand", "n": 1, "greedy": g, "sim": o}],
                                         [{"op": "exp", "n": 1}, {"op": "cand", "n": 1, "greedy": g, "sim": o}, {"op": "cand", "n": 2, "greedy": g, "sim": o}]])
    invs = ["Inv_Covers", "Inv_RET", "Inv_HANG"]
    res.cov["rule"] = ("node_attractor_candidates on expanded, unexpanded and skipped nodes under all 4 option combinations and a grid of "
                       "configuration values (candidate limit and optimisation threshold in {0,1,2,3,default}, simulation budget {0,1,default}, "
                       "NFVS threshold {0,default}); every returned list must consist of full states inside the node that hit every attractor of "
                       "the node not inside a successor (TLC recomputes the attractors); otherwise the call must have raised and cached nothing. "
                       "Non-trivial: distinct cases where some node has >= 2 own attractors or a non-default configuration is in force.")

    def nt(tr):
        c = tr["cfg"]
        return c["candlim"] != 100000 or c["rsthr"] != 1000 or any(len(n["cand"]["v"]) >= 2 for n in tr["events"][-1]["post"]["nodes"])
    execute_and_validate(res, tasks, invs, "cand", nt)


def c12(res: Result):
    q = res.tier == Q
    rng = random.Random(res.seed + 12)
    recs = run_mc(res, "sets", ["exp", "cand", "seeds", "sets", "reclaim"], 3, [], [1000], ["Inv_WF", "Inv_CacheFresh"], None)
    tasks = []
    pool = gen.network_pool(rng, 700 if q else 9000, [2, 3, 3, 4, 4, 5] if q else [3, 4, 4, 5, 5, 6])
    for i, tt in enumerate(pool):
        pre = rng.choice([[], [{"op": "exp", "n": 1}], [FULL_BFS], [{"op": "bfs", "n": 1, "lvl": 0, "size": -1}]])
        qs = []
        for k in (1, 2, 3, 4):
            seq = rng.choice([["sets"], ["seeds", "sets"], ["cand", "seeds", "sets"], ["seeds", "reclaim", "sets"],
                              ["cand", "reclaim", "sets"], ["sets", "pickle", "sets"]])
            for o in seq:
                qs.append({"op": o, "n": k, "fallback": False})
        t = {"tid": f"r{i}", "tt": tt, "ops": pre + qs, "meta": "sets in various orders"}
        tasks.append(t)
        # the symbolic fallback: force the candidate pipeline to fail with a tiny candidate limit
        if i % 3 == 0:
            tasks.append({"tid": f"f{i}", "tt": tt, "cfg": {"maxm": 100000, "candlim": rng.choice([0, 1]), "rsthr": 1000, "simbudget": 1000, "nfvsthr": 2000},
                          "ops": pre + [{"op": "seeds", "n": k, "fallback": True} for k in (1, 2, 3)] + [{"op": "sets", "n": k} for k in (1, 2, 3)],
                          "meta": "symbolic fallback (candidate limit forces RuntimeError)"})
    invs = ["Inv_SetsFresh", "Inv_CacheFresh", "Inv_CACHE", "Inv_OUT", "Inv_HANG"]
    res.cov["rule"] = ("Attractor sets requested before/after seeds and candidates, after reclamation and pickling, on expanded and unexpanded "
                       "nodes; and seeds via the symbolic fallback (forced by a tiny candidate limit). TLC checks that set i is exactly the "
                       "attractor containing seed i, over all variables, and that fallback seeds are exactly the node's own attractors. "
                       "Non-trivial: distinct cases with a complex (non-singleton) attractor set or a fallback run.")

    def nt(tr):
        if any(e["op"] == "seeds" and e["fallback"] and not e["raised"] for e in tr["events"]):
            return True
        return any(len(s) > 1 for n in tr["events"][-1]["post"]["nodes"] for s in n["sets"]["v"])
    execute_and_validate(res, tasks, invs, "sets", nt)


def c15(res: Result):
    q = res.tier == Q
    rng = random.Random(res.seed + 15)
    ops = ["exp", "bfs", "dfs", "min", "tgt", "aseeds", "skipmin", "skiprem"]
    invs_mc = ["Inv_WF", "Inv_PartialFaithful", "Inv_CacheFresh", "Inv_RetFalse", "Inv_MinExact", "Inv_FullExact"]
    if q:
        recs = run_mc(res, "limits", ops, 2, [0, 2], [1, 1000], invs_mc, 1, failats=[0, 1, 2])
    else:
        recs = run_mc(res, "limits", ops, 2, [0, 1, 2, 3], [0, 1, 2, 1000], invs_mc, 1, failats=[0, 1, 2, 3])
    interesting = [r for r in recs if r["failat"] or r["maxm"] != 1000 or any(isinstance(x, int) and x >= 0 for h in r["hist"] for x in h[2:])]
    tasks = tasks_from_emitted(interesting, rng, 1500 if q else 20000, "m")
    # random networks: limited calls under small max_motifs_per_node, then the same call relaxed
    pool = gen.network_pool(rng, 400 if q else 5000, [3, 3, 4, 4, 5] if q else [3, 4, 4, 5, 5, 6])
    for i, tt in enumerate(pool):
        cfg = {"maxm": rng.choice([0, 1, 2, 3, 100000, 100000]), "candlim": rng.choice([0, 1, 2, 100000]), "rsthr": 1000,
               "simbudget": 1000, "nfvsthr": 2000}
        tasks.append({"tid": f"r{i}", "tt": tt, "cfg": cfg, "hseed": rng.randrange(1 << 30),
                      "kinds": gen.PLAIN_KINDS + ["skipmin", "skiprem", "minskip", "seeds", "cand", "sets"], "steps": rng.randint(2, 5),
                      "tail": [FULL_BFS], "meta": "limits + resource-limit errors"})
    # fault enumeration: every solver call of the last call fails once
    fpool = gen.network_pool(rng, 150 if q else 2000, [3, 4, 4, 5])
    for i, tt in enumerate(fpool):
        pre = rng.choice([[], [{"op": "exp", "n": 1}], [{"op": "bfs", "n": 1, "lvl": 0, "size": -1}]])
        last = rng.choice([FULL_BFS, FULL_DFS, {"op": "min", "n": 1, "size": -1, "skip": rng.random() < 0.5},
                           {"op": "aseeds", "size": -1}, {"op": "tgt", "target": [rng.choice([0, 1, 2]) for _ in tt], "size": -1},
                           {"op": "skiprem"}, {"op": "seeds", "n": 1}, {"op": "sets", "n": 1}])
        if last["op"] == "tgt" and all(x == 2 for x in last["target"]):
            last["target"][0] = 1
        tasks.append({"tid": f"f{i}", "tt": tt, "ops": pre + [last], "faults": True, "meta": "fault enumeration"})
    invs = ["Inv_RET", "Inv_STRUCT", "Inv_XL", "Inv_CACHE", "Inv_WF", "Inv_PartialFaithful", "Inv_CacheFresh", "Inv_RetFalse",
            "Inv_MinExact", "Inv_FullExact", "Inv_HANG"]
    res.cov["rule"] = ("(a) every abstract state of the TLC model under size/level/stack limits 0..3, max_motifs_per_node in {0,1,2,default} and the "
                       "k-th solver call failing (k<=3) yields a history replayed in the library; (b) random histories under small resource limits "
                       "followed by a full BFS; (c) fault enumeration: for each solver call k of a call, a run in which that call raises, followed by "
                       "the same call without fault (resume). After every event TLC checks the diagram is a valid partial diagram with fresh caches, "
                       "the return value is the one the model produces, True means the contract is complete and a size-limited False leaves a stub. "
                       "Non-trivial: distinct histories containing a call that raised or returned False.")

    def nt(tr):
        return any(e["raised"] or e["ret"] == "false" for e in tr["events"])
    execute_and_validate(res, tasks, invs, "limits", nt)


# ------------------------------------------------------------------------------------------------
# pure-function engine (PureTrace.tla) and stateless theorems (MC_Theorems.tla)
# ------------------------------------------------------------------------------------------------
def run_theorems(res: Result, invariants: list[str], netmode: str = "all2"):
    wd = os.path.join(sdcheck.WORK, res.pid, "theorems")
    shutil.rmtree(wd, ignore_errors=True)
    os.makedirs(wd)
    cfg = os.path.join(wd, "th.cfg")
    tlc.write_cfg(cfg, invariants=invariants, constants={"NetMode": f'"{netmode}"'})
    r = tlc.model_check("MC_Theorems", cfg, wd)
    res.cov["states"] += r["distinct"]
    res.cov["transitions"] += r["generated"]
    res.cov["mc_runs"].append({"name": "theorems", "nets": netmode, "invariants": invariants, "distinct_states": r["distinct"],
                               "ok": r["ok"], "wall_s": round(r["wall_s"], 1)})
    if not r["ok"]:
        for inv in r["violated"]:
            res.violations.append(f"{r['log']}#model:{inv}")


def run_pure(res: Result, tasks: list[dict], invariants: list[str], label: str, nontrivial_event):
    import pure
    wd = os.path.join(sdcheck.WORK, res.pid, "pure_" + label)
    shutil.rmtree(wd, ignore_errors=True)
    os.makedirs(wd)
    tf = os.path.join(wd, "traces.ndjson")
    pure.record_many(tasks, tf)
    out = tlc.validate_traces(tf, "PureTrace", invariants + ["Inv_RAISED", "Inv_UNKNOWN"], wd)
    traces = {}
    for ln in open(tf):
        tr = json.loads(ln)
        traces[tr["tid"]] = tr
    res.cov["traces_validated_against_impl"] += out["traces"]
    res.cov["states"] += out["states"]            # TLC states of the trace validation runs
    res.cov["transitions"] += out["generated"]
    res.cov["trace_validation_states"] = res.cov.get("trace_validation_states", 0) + out["states"]
    seen = set()
    for tr in traces.values():
        for e in tr["events"]:
            res.cov["evaluations"] += 1
            key = json.dumps([tr["net"]["f"], {k: v for k, v in e.items() if k not in ("res", "res1", "res2", "pn", "gtt", "ldoi", "drv")}])
            if key not in seen:
                seen.add(key)
                if nontrivial_event(e):
                    res.cov["distinct_nontrivial"] += 1
    for tr in list(traces.values())[:2]:
        res.cov["samples"].append({"tid": tr["tid"], "net": tr["net"], "events": tr["events"][:3]})
    by = {}
    for (inv, tid, l, op) in out["violations"]:
        by.setdefault(tid, []).append((inv, l, op))
    for k, (tid, vs) in enumerate(sorted(by.items())):
        if k >= 25:
            break
        vd = os.path.join(sdcheck.WORK, res.pid, "violations", f"{label}_{tid}")
        os.makedirs(vd, exist_ok=True)
        tr = traces[tid]
        json.dump(tr, open(os.path.join(vd, "trace.json"), "w"))
        json.dump({"property": res.pid, "engine": "pure",
                   "failing": [{"invariant": i, "event": l, "op": o, "call": tr["events"][l - 1]} for (i, l, o) in vs],
                   "net": tr["net"]}, open(os.path.join(vd, "verdict.json"), "w"), indent=1)
        res.violations.append(vd)


def pure_tasks(rng, q, kinds, per_kind, sizes, count, exhaustive2=True, prefix="p"):
    tasks = []
    if exhaustive2:
        for i, tt in enumerate(bn.all_networks(2)):
            tasks.append({"tid": f"{prefix}a{i}", "tt": tt, "seed": rng.randrange(1 << 30), "kinds": kinds,
                          "per_kind": per_kind, "exhaustive_small": True})
    for i, tt in enumerate(gen.network_pool(rng, count, sizes)):
        tasks.append({"tid": f"{prefix}r{i}", "tt": tt, "seed": rng.randrange(1 << 30), "kinds": kinds,
                      "per_kind": per_kind, "exhaustive_small": q is False})
    for name, tt in gen.gadget_networks().items():
        if len(tt) <= 6:
            tasks.append({"tid": f"{prefix}g{name}", "tt": tt, "seed": rng.randrange(1 << 30), "kinds": kinds,
                          "per_kind": per_kind, "exhaustive_small": True})
    return tasks


def c09(res: Result):
    q = res.tier == Q
    rng = random.Random(res.seed + 9)
    run_theorems(res, ["T_Rev", "T_Succ", "T_MinTrap"])
    tasks = pure_tasks(rng, q, ["trappist", "reduced"], 12 if q else 60, [3, 3, 4, 4, 5] if q else [3, 4, 5, 5, 6], 400 if q else 4000)
    res.cov["rule"] = ("trappist (min / max / fix, both time directions, enclosing subspace, 0-3 avoided subspaces, source-variable lists "
                       "auto/none/explicit, solution limits none/0/1/2/3, Petri-net or network input) and compute_fixed_point_reduced_STG "
                       "(random retained sets, enclosing and avoided subspaces incl. the empty one, limits) on all 256 two-variable networks and "
                       "random 3-6 variable networks; TLC computes the requested set from the enumerated trap spaces of the network / its time "
                       "reversal and compares (exact set without limit; duplicate-free subset of size min(count, limit) with limit). "
                       "Non-trivial: distinct calls whose result has >= 2 elements or that use avoid / reverse time / limits.")
    run_pure(res, tasks, ["Inv_TRAPPIST", "Inv_REDUCED"], "solver",
             lambda e: len(e["res"]) >= 2 or e["rev"] or e["avoid"] or e["limit"] >= 0)


def c10(res: Result):
    q = res.tier == Q
    rng = random.Random(res.seed + 10)
    tasks = pure_tasks(rng, q, ["pn", "restrict", "percnet"], 8 if q else 40, [3, 3, 4, 4, 5] if q else [3, 4, 5, 5, 6], 400 if q else 4000)
    res.cov["rule"] = ("network_to_petrinet, restrict_petrinet_to_subspace (also applied twice, as node_percolated_petri_net does) and "
                       "percolate_network (with/without constant removal) on all two-variable and random 3-6 variable networks; TLC checks "
                       "for every state of the subspace and every remaining variable that an up/down transition is enabled iff the update "
                       "function disagrees with the current value in that direction, and that the variables are exactly those left free. "
                       "Non-trivial: distinct calls on a proper subspace or with >= 4 transitions.")
    run_pure(res, tasks, ["Inv_PN", "Inv_RESTRICT", "Inv_PERCNET"], "pn",
             lambda e: len(e["pn"]) >= 4 or any(x != 2 for x in e["sp"]))


def c11(res: Result):
    q = res.tier == Q
    rng = random.Random(res.seed + 11)
    run_theorems(res, ["T_Perc"])
    tasks = pure_tasks(rng, q, ["perc", "strict", "conflicts", "ldoi", "drivers"], 12 if q else 40,
                       [3, 3, 4, 4, 5] if q else [3, 4, 5, 5, 6], 400 if q else 4000)
    res.cov["rule"] = ("percolate_space, percolate_space_strict, percolation_conflicts, find_single_node_LDOIs and find_single_drivers on every "
                       "subspace (trap space or not, consistent or conflicting) of all two-variable networks and gadgets, and random subspaces of "
                       "random 3-6 variable networks; TLC computes the least fixed point of value propagation (given values kept) from the truth "
                       "tables and compares; idempotence and trap preservation are checked on every result and as theorems on all subspaces of "
                       "all two-variable networks. Non-trivial: distinct calls where propagation fixes at least one further variable or the space conflicts.")
    run_pure(res, tasks, ["Inv_PERC", "Inv_PERCLAW", "Inv_STRICT", "Inv_CONFLICTS", "Inv_LDOI", "Inv_DRIVERS"], "perc",
             lambda e: (e["k"] in ("perc", "strict") and sum(1 for x in e["res1"] if x != 2) > 0 and e["res1"] != e["sp"]) or bool(e["res2"]) or e["k"] in ("ldoi",))


def run_control(res: Result, tasks, invariants, label, nontrivial_event):
    import control
    wd = os.path.join(sdcheck.WORK, res.pid, "ctl_" + label)
    shutil.rmtree(wd, ignore_errors=True)
    os.makedirs(wd)
    tf = os.path.join(wd, "traces.ndjson")
    control.record_many(tasks, tf)
    out = tlc.validate_traces(tf, "ControlTrace", invariants + ["Inv_RAISED"], wd)
    traces = {}
    for ln in open(tf):
        tr = json.loads(ln)
        traces[tr["tid"]] = tr
    res.cov["traces_validated_against_impl"] += out["traces"]
    res.cov["states"] += out["states"]            # TLC states of the trace validation runs
    res.cov["transitions"] += out["generated"]
    res.cov["trace_validation_states"] = res.cov.get("trace_validation_states", 0) + out["states"]
    seen = set()
    for tr in traces.values():
        for e in tr["events"]:
            res.cov["evaluations"] += 1
            key = json.dumps([tr["net"]["f"], e["target"], e["strategy"], e["bound"], e["forbidden"], e["sonly"], e["skipff"], e["hist"]])
            if key not in seen:
                seen.add(key)
                if nontrivial_event(e):
                    res.cov["distinct_nontrivial"] += 1
    for tr in list(traces.values())[:2]:
        res.cov["samples"].append({"tid": tr["tid"], "net": tr["net"], "events": tr["events"][:2]})
    by = {}
    for (inv, tid, l, op) in out["violations"]:
        by.setdefault(tid, []).append((inv, l, op))
    for k, (tid, vs) in enumerate(sorted(by.items())):
        if k >= 25:
            break
        vd = os.path.join(sdcheck.WORK, res.pid, "violations", f"{label}_{tid}")
        os.makedirs(vd, exist_ok=True)
        tr = traces[tid]
        json.dump(tr, open(os.path.join(vd, "trace.json"), "w"))
        json.dump({"property": res.pid, "engine": "control",
                   "failing": [{"invariant": i, "event": l, "call": tr["events"][l - 1]} for (i, l, o) in vs],
                   "net": tr["net"]}, open(os.path.join(vd, "verdict.json"), "w"), indent=1)
        res.violations.append(vd)


def control_tasks(rng, q, with_history, count, sizes, calls):
    tasks = []
    nets = list(bn.all_networks(2))
    for i, tt in enumerate(nets if not q else rng.sample(nets, 96)):
        tasks.append({"tid": f"a{i}", "tt": tt, "seed": rng.randrange(1 << 30), "calls": calls, "with_history": with_history})
    for i, tt in enumerate(gen.network_pool(rng, count, sizes, ["mixed", "sparse", "modular", "modular"])):
        tasks.append({"tid": f"r{i}", "tt": tt, "seed": rng.randrange(1 << 30), "calls": calls, "with_history": with_history})
    for name, tt in gen.gadget_networks().items():
        if len(tt) <= 4:
            tasks.append({"tid": f"g{name}", "tt": tt, "seed": rng.randrange(1 << 30), "calls": calls * 2, "with_history": with_history})
    return tasks


def c06(res: Result):
    q = res.tier == Q
    rng = random.Random(res.seed + 6)
    tasks = control_tasks(rng, q, True, 300 if q else 4000, [3, 3, 4, 4] if q else [3, 4, 4, 5], 6 if q else 12)
    res.cov["rule"] = ("succession_control on fresh diagrams and on diagrams already partially expanded / skipped / shortcut by random "
                       "strategies, random non-empty targets (trap spaces or not), both strategies, driver bounds none/0/1/2/N, forbidden sets, "
                       "skip_feedforward on/off. For every intervention reported successful TLC recomputes: the cumulative spaces are nested trap "
                       "spaces, each listed override's LDOI contains the step's motif, and in the overridden network every attractor reachable "
                       "from the previous trap space has the motif's values; the last space meets the target and all minimal trap spaces inside "
                       "it are inside the target. Non-trivial: distinct calls that return at least one successful intervention with >= 1 step.")
    run_control(res, tasks, ["Inv_C06", "Inv_FLAG"], "forces", lambda e: any(x["ok"] and x["succ"] for x in e["res"]))


def c07(res: Result):
    q = res.tier == Q
    rng = random.Random(res.seed + 7)
    tasks = control_tasks(rng, q, False, 300 if q else 4000, [3, 3, 4, 4] if q else [3, 4, 4, 5], 6 if q else 12)
    res.cov["rule"] = ("succession_control on fresh diagrams (random non-empty targets, both strategies, bounds none/0/1/2/N, forbidden sets, "
                       "successful_only on/off); TLC builds the expected answer from the full succession diagram of the truth tables: "
                       "target-directed sub-diagram, end nodes, all root-to-end paths x all motifs per edge, and per step all inclusion-minimal "
                       "driver variable sets (every forcing valuation) within bound and outside the forbidden set; the returned list must equal it "
                       "as a set, with each succession once and the unsuccessful flag exactly when a step has no override. "
                       "Non-trivial: distinct calls whose expected answer has at least one non-empty succession.")
    run_control(res, tasks, ["Inv_C07", "Inv_FLAG"], "exact", lambda e: any(x["succ"] for x in e["res"]))


CHECKS = {"C06": c06, "C07": c07, "C09": c09, "C10": c10, "C11": c11, "C15": c15, "C01": c01, "C02": c02, "C03": c03, "C04": c04, "C05": c05, "C08": c08, "C12": c12, "C14": c14, "C20": c20}


def run(pid: str, tier: str, seed: int) -> int:
    if pid not in CHECKS:
        print(f"no check for {pid}")
        return 2
    shutil.rmtree(os.path.join(sdcheck.WORK, pid), ignore_errors=True)
    res = Result(pid, tier, seed)
    res.assumptions = ["TLC 1.8 and the CommunityModules Json reader", "BoolNet.tla definitions (theorem-checked in MC_Theorems)",
                       "harness: truth-table renderer (round-trip self-test), projection, recorder",
                       "networks up to 6 variables; histories up to the stated depth"]
    CHECKS[pid](res)
    return res.finish()


def replay(pid: str, path: str) -> int:
    """re-execute the recorded history of a violation against the current code and re-validate it"""
    tr = json.load(open(os.path.join(path, "trace.json")))
    verdict = json.load(open(os.path.join(path, "verdict.json")))
    ops = [{k: v for k, v in e.items() if k not in ("post", "ret", "out", "raised", "exc", "xl", "mts", "orc", "solver_calls")}
           for e in tr["events"][1:]]
    wd = os.path.join(sdcheck.WORK, pid, "replay")
    shutil.rmtree(wd, ignore_errors=True)
    os.makedirs(wd)
    # truth tables are stored in code order = harness order for generated names
    task = {"tid": tr["tid"], "tt": tr["net"]["f"], "ops": ops, "cfg": tr["cfg"], "names": tr["names"]}
    tf = os.path.join(wd, "traces.ndjson")
    gen.record_many([task], tf, procs=1)
    invs = sorted({f["invariant"] for f in verdict["failing"]})
    out = tlc.validate_traces(tf, "SDTrace", ["Inv_" + i if not i.startswith("Inv_") else i for i in invs], wd, shards=1)
    for v in out["violations"]:
        print("still failing:", v)
    if out["violations"]:
        print(f"VIOLATION property={pid} replay={path}")
        return 1
    print("replay: the recorded history is now accepted")
    return 0
