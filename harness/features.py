"""
Brute-force structural analysis of small networks, used ONLY to select interesting inputs for the
workloads (never to judge): networks with several attractors in one minimal trap space,
motif-avoidant attractors, two motifs percolating to one child, percolation shortcuts (nodes reachable
by root paths of different lengths), new sources after percolation, deep diagrams.

  python3 features.py build   -> writes /verif/catalogue/features.json (deterministic)
"""
from __future__ import annotations

import itertools
import json
import os
import random
import sys

sys.path.insert(0, os.path.dirname(__file__))
import bn  # noqa: E402

OUT = os.path.join(os.path.dirname(os.path.dirname(os.path.abspath(__file__))), "catalogue", "features.json")


def analyse(tt):
    n = len(tt)
    size = 1 << n
    states = range(size)

    def post(s):
        return [s ^ (1 << i) for i in range(n) if tt[i][s] != ((s >> i) & 1)]

    reach = {}
    for s in states:
        seen = {s}
        st = [s]
        while st:
            x = st.pop()
            for y in post(x):
                if y not in seen:
                    seen.add(y)
                    st.append(y)
        reach[s] = seen
    attrs = {frozenset(reach[s]) for s in states if all(s in reach[u] for u in reach[s])}
    spaces = list(itertools.product((0, 1, 2), repeat=n))

    def inside(s, sp):
        return all(sp[i] == 2 or sp[i] == ((s >> i) & 1) for i in range(n))

    def sub(a, b):
        return all(b[i] == 2 or b[i] == a[i] for i in range(n))

    st_of = {sp: [s for s in states if inside(s, sp)] for sp in spaces}
    traps = [sp for sp in spaces if all(tt[i][s] == sp[i] for s in st_of[sp] for i in range(n) if sp[i] != 2)]

    def perc(sp):
        sp = list(sp)
        while True:
            nx = list(sp)
            for i in range(n):
                if sp[i] == 2:
                    vals = {tt[i][s] for s in st_of[tuple(sp)]}
                    if len(vals) == 1:
                        nx[i] = vals.pop()
            if nx == sp:
                return tuple(sp)
            sp = nx

    mint = [t for t in traps if not any(u != t and sub(u, t) for u in traps)]
    srcs = [i for i in range(n) if all(tt[i][s] == ((s >> i) & 1) for s in states)]
    root = perc((2,) * n)

    def max_in(sp, use_src):
        cand = [t for t in traps if sub(t, sp) and t != sp and (not use_src or all(t[i] != 2 for i in srcs))]
        return [t for t in cand if not any(u != t and sub(t, u) for u in cand)]

    # full diagram
    nodes = {root: 0}
    order = [root]
    edges = {}
    i = 0
    while i < len(order):
        sp = order[i]
        i += 1
        for m in max_in(sp, sp == root):
            c = perc(m)
            edges.setdefault((sp, c), []).append(m)
            if c not in nodes:
                nodes[c] = 0
                order.append(c)
    # longest / shortest path lengths
    longest = {root: 0}
    shortest = {root: 0}
    changed = True
    while changed:
        changed = False
        for (p, c) in edges:
            if p in longest and longest.get(c, -1) < longest[p] + 1:
                longest[c] = longest[p] + 1
                changed = True
            if p in shortest and shortest.get(c, 99) > shortest[p] + 1:
                shortest[c] = shortest[p] + 1
                changed = True
    feats = set()
    for t in mint:
        k = sum(1 for a in attrs if all(inside(s, t) for s in a))
        if k >= 2:
            feats.add("multi_attr_in_min_trap")
    if any(not any(all(inside(s, t) for s in a) for t in mint) for a in attrs):
        feats.add("maa")
    if any(len(ms) >= 2 for ms in edges.values()):
        feats.add("two_motifs_one_child")
    if any(longest[c] != shortest[c] for c in nodes if c in longest):
        feats.add("shortcut")
    if any(longest[c] - shortest[c] >= 2 for c in nodes if c in longest):
        feats.add("shortcut2")
    if max(longest.values()) >= 3:
        feats.add("deep")
    if srcs:
        feats.add("sources")
    for sp in nodes:
        if sp != root:
            for i2 in range(n):
                if sp[i2] == 2 and i2 not in srcs and all(tt[i2][s] == ((s >> i2) & 1) for s in st_of[sp]):
                    feats.add("new_source")
    if any(len(a) > 1 for a in attrs):
        feats.add("complex_attr")
    # (round 4) a minimal trap space with two or more complex attractors; an attractor state whose SYNCHRONOUS successor
    # (all variables updated at once) leaves the attractor - a walk that is not asynchronous would be noticed there
    for t in mint:
        if sum(1 for a in attrs if len(a) > 1 and all(inside(s, t) for s in a)) >= 2:
            feats.add("multi_complex_in_min_trap")
    for a in attrs:
        if len(a) > 1:
            for s in a:
                y = sum(tt[i][s] << i for i in range(n))
                if y not in a:
                    feats.add("sync_escape")
    return {"features": sorted(feats), "nodes": len(nodes), "attractors": len(attrs), "min_traps": len(mint),
            "depth": max(longest.values())}


def module_nets():
    """structured networks: cascades of switches with percolation shortcuts"""
    out = {}
    f = bn.from_exprs
    # x1 <-> x2, y = y & x1
    m = f(3, [lambda s: s[1], lambda s: s[0], lambda s: s[2] and s[0]])
    out["mod_switch_gate"] = m
    out["mod2"] = bn.disjoint_union(m, m)
    out["mod_latch"] = bn.disjoint_union(m, f(2, [lambda s: s[1], lambda s: s[0]]))
    out["mod2_latch"] = bn.disjoint_union(out["mod2"], f(2, [lambda s: s[1], lambda s: s[0]]))
    # chain: a=a, b = a&b, c = b&c, d = c&d
    out["chain4"] = f(4, [lambda s: s[0], lambda s: s[0] and s[1], lambda s: s[1] and s[2], lambda s: s[2] and s[3]])
    out["chain5"] = f(5, [lambda s: s[0], lambda s: s[0] and s[1], lambda s: s[1] and s[2], lambda s: s[2] and s[3],
                          lambda s: s[3] and s[4]])
    # or-pair feeding a gate
    out["orpair_gate"] = f(3, [lambda s: s[0] or s[1], lambda s: s[0] or s[1], lambda s: s[2] and s[0]])
    out["orpair_src"] = f(4, [lambda s: s[0], lambda s: (s[1] or s[2]) and s[0], lambda s: (s[1] or s[2]) and s[0],
                              lambda s: not s[3]])
    return out


def build(seed: int = 2026, per_feature: int = 12):
    rng = random.Random(seed)
    want = ["multi_attr_in_min_trap", "maa", "two_motifs_one_child", "shortcut", "shortcut2", "deep", "new_source", "complex_attr",
            "multi_complex_in_min_trap", "sync_escape"]
    got = {w: [] for w in want}
    tries = 0
    while tries < 60000 and any(len(v) < per_feature for v in got.values()):
        tries += 1
        n = rng.choice([3, 3, 4, 4, 5])
        tt = bn.random_network(rng, n, rng.choice(["mixed", "sparse", "modular", "dense"]))
        a = analyse(tt)
        for ftr in a["features"]:
            if ftr in got and len(got[ftr]) < per_feature and a["nodes"] <= 40:
                got[ftr].append({"tt": tt, "info": a})
    mods = {}
    for name, tt in module_nets().items():
        mods[name] = {"tt": tt, "info": analyse(tt) if len(tt) <= 6 else {"features": ["module"], "nodes": -1}}
    os.makedirs(os.path.dirname(OUT), exist_ok=True)
    json.dump({"seed": seed, "random": got, "modules": mods}, open(OUT, "w"))
    for k, v in got.items():
        print(k, len(v))
    for k, v in mods.items():
        print(k, v["info"])


def load():
    return json.load(open(OUT))


def feature_networks(kinds: list[str] | None = None, max_n: int = 6):
    """list of (name, tt)"""
    d = load()
    out = []
    for ftr, lst in d["random"].items():
        if kinds and ftr not in kinds:
            continue
        for i, e in enumerate(lst):
            if len(e["tt"]) <= max_n:
                out.append((f"{ftr}{i}", e["tt"]))
    for name, e in d["modules"].items():
        if (not kinds or "modules" in kinds) and len(e["tt"]) <= max_n:
            out.append((name, e["tt"]))
    return out


if __name__ == "__main__":
    if len(sys.argv) > 1 and sys.argv[1] == "build":
        build()
