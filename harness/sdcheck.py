"""
The succession-diagram engine of the checks: for one property
  1. model-check MC_SD.tla (all two-variable networks x call histories) with the property's
     invariants; the same run emits one call history per distinct idle abstract state,
  2. execute a sample of those histories plus random histories on larger networks against the real
     library under the recorder,
  3. validate every recorded event and every recorded state with TLC (SDTrace.tla),
  4. report violations / known findings, write the evidence file.
"""
from __future__ import annotations

import hashlib
import json
import os
import random
import shutil
import sys
import time

sys.path.insert(0, os.path.dirname(__file__))
import bn  # noqa: E402
import gen  # noqa: E402
import tlc  # noqa: E402

VERIF = os.path.dirname(os.path.dirname(os.path.abspath(__file__)))   # a `vp run` snapshot uses its own work directory
WORK = os.environ.get("VERIF_WORK") or os.path.join(VERIF, "work")
EVID = os.path.join(WORK, "evidence") if os.environ.get("VERIF_WORK") else os.path.join(VERIF, "evidence")
CONF_CLAUSES: list[str] = ["Inv_PROJ"]      # the projection itself must be well-formed, whatever the property
# mechanism-level conformance clauses: evaluated by TLC on every event, reported as MODEL-DEVIATION diagnostics, never a verdict
DIAGNOSTICS = ["Dev_MTS", "Dev_STRUCT", "Dev_IDS", "Dev_DEPTH", "Dev_IDX", "Dev_CACHE", "Dev_RET", "Dev_OUT", "Dev_XL", "Dev_ORACLE",
               "Dev_LOOPMECH"]


def load_known() -> dict:
    p = os.path.join(VERIF, "known_findings.json")
    if os.path.exists(p):
        return json.load(open(p))
    return {"open": [], "fixed": []}


def net_key(tt) -> str:
    return hashlib.sha1(json.dumps(tt).encode()).hexdigest()[:12]


def trace_signature(tr: dict, upto: int) -> list:
    """the call history up to and including event index `upto` (1-based), without results"""
    sig = []
    for e in tr["events"][1:upto]:
        sig.append([e["op"], e["n"], e["lvl"], e["stk"], e["size"], e["skip"]])
    return sig


def matches_known(entry: dict, pid: str, inv: str, tr: dict, l: int) -> bool:
    m = entry["match"]
    if entry["property"] != pid:
        return False
    if "inv" in m and m["inv"] != inv:
        return False
    if "net" in m and m["net"] != tr["net"]["f"]:
        return False
    if "op" in m and tr["events"][l - 1]["op"] != m["op"]:
        return False
    if "ops" in m and [e["op"] for e in tr["events"][1:l]] != m["ops"]:
        return False
    return True


class Result:
    def __init__(self, pid: str, tier: str, seed: int):
        self.pid, self.tier, self.seed = pid, tier, seed
        self.t0 = time.time()
        self.violations: list[str] = []     # replay paths
        self.known: list[str] = []
        self.cov: dict = {"states": 0, "transitions": 0, "traces_validated_against_impl": 0, "samples": [],
                          "evaluations": 0, "distinct_nontrivial": 0, "rule": "", "mc_runs": [], "exhaustive": False}
        self.assumptions: list[str] = []

    def write(self, level: str = "model_checking"):
        ev = {"property_id": self.pid, "tier": self.tier, "seed": self.seed, "level": level,
              "coverage": self.cov, "assumptions": self.assumptions,
              "wall_s": round(time.time() - self.t0, 2), "violations": len(self.violations)}
        os.makedirs(EVID, exist_ok=True)
        with open(os.path.join(EVID, f"{self.pid}.json"), "w") as f:
            json.dump(ev, f, indent=1)

    def finish(self) -> int:
        for k in self.known:
            print(k)
        for v in self.violations:
            print(f"VIOLATION property={self.pid} replay={v}")
        self.write()
        print(f"[{self.pid}] {self.tier}: states={self.cov['states']} traces={self.cov['traces_validated_against_impl']} "
              f"nontrivial={self.cov['distinct_nontrivial']} violations={len(self.violations)} "
              f"known={len(self.known)} wall={time.time() - self.t0:.0f}s")
        return 1 if self.violations else 0


# ------------------------------------------------------------------------------------------------
def run_mc(res: Result, name: str, ops: list[str], maxcalls: int, limits: list[int], maxm: list[int],
           invariants: list[str], emit_from: int | None, netmode: str = "all2", timeout: float = 3000.0,
           failats: list[int] = (0,), properties: list[str] = ()) -> list[dict]:
    wd = os.path.join(WORK, res.pid, "mc_" + name)
    shutil.rmtree(wd, ignore_errors=True)
    os.makedirs(wd)
    cfg = os.path.join(wd, "mc.cfg")
    invs = list(invariants) + (["Emit"] if emit_from is not None else [])
    tlc.write_cfg(cfg, invariants=invs, view="view", properties=list(properties),
                  constants={"MaxCalls": maxcalls, "NetMode": f'"{netmode}"', "Limits": tlc.tla_set(limits),
                             "MaxM": tlc.tla_set(maxm), "Ops": tlc.tla_set(ops), "FailAts": tlc.tla_set(list(failats)),
                             "EmitFrom": emit_from if emit_from is not None else 99})
    env = {"CATALOGUE": os.path.join(tlc.SPEC_DIR, "catalogue.ndjson")} if netmode == "file" else None
    r = tlc.model_check("MC_SD", cfg, wd, timeout=timeout, env=env)
    res.cov["states"] += r["distinct"]
    res.cov["transitions"] += r["generated"]
    res.cov["mc_runs"].append({"name": name, "ops": ops, "max_calls": maxcalls, "limits": limits, "maxm": maxm,
                               "nets": netmode, "distinct_states": r["distinct"], "transitions": r["generated"],
                               "invariants": list(invariants) + list(properties), "ok": r["ok"], "wall_s": round(r["wall_s"], 1)})
    if not r["ok"]:
        path = os.path.join(wd, "tlc.log")
        for inv in r["violated"]:
            res.violations.append(f"{path}#model:{inv}")
    return gen.parse_emitted(r["lines"])


def tasks_from_emitted(recs: list[dict], rng: random.Random, k: int, prefix: str, tail: list[dict] | None = None):
    if len(recs) > k:
        recs = rng.sample(recs, k)
    tasks = []
    for i, r in enumerate(recs):
        ops = gen.hist_to_ops(r["hist"])
        if r.get("failat"):
            for o in ops:
                o["fail_at"] = r["failat"]
        ops = ops + (tail or [])
        cfg = {"maxm": r["maxm"], "candlim": 100000, "rsthr": 1000, "simbudget": 1000, "nfvsthr": 2000}
        tasks.append({"tid": f"{prefix}{i}", "tt": r["net"]["f"], "ops": ops, "cfg": cfg, "meta": "tlc-history"})
    return tasks


def random_tasks(rng: random.Random, count: int, sizes: list[int], kinds: list[str], steps: tuple[int, int],
                 prefix: str, tail: list[dict] | None = None, profiles: list[str] | None = None,
                 cfgs: list[dict] | None = None, big: bool = False, nets: list | None = None):
    tasks = []
    pool = nets if nets is not None else gen.network_pool(rng, count, sizes, profiles)
    for i in range(count):
        tt = pool[i % len(pool)]
        t = {"tid": f"{prefix}{i}", "tt": tt, "hseed": rng.randrange(1 << 30), "kinds": kinds,
             "steps": rng.randint(*steps), "tail": tail or [], "meta": "random-history", "big": big}
        if cfgs:
            t["cfg"] = rng.choice(cfgs)
        tasks.append(t)
    return tasks


def note_deviations(res: "Result", out: dict) -> None:
    """mechanism-level differences between the implementation and the model: diagnostics only"""
    devs = out.get("deviations", [])
    res.cov["model_deviations"] = res.cov.get("model_deviations", 0) + len(devs)
    byc = res.cov.setdefault("model_deviation_clauses", {})
    for (c, tid, l, op) in devs:
        byc[c] = byc.get(c, 0) + 1
    for (c, tid, l, op) in devs[:3]:
        print(f"MODEL-DEVIATION (diagnostic, not a violation) property={res.pid} clause={c} trace={tid} event={l} op={op}")


def execute_and_validate(res: Result, tasks: list[dict], invariants: list[str], label: str,
                         nontrivial, sample_n: int = 3) -> None:
    wd = os.path.join(WORK, res.pid, "tr_" + label)
    shutil.rmtree(wd, ignore_errors=True)
    os.makedirs(wd)
    tf = os.path.join(wd, "traces.ndjson")
    gen.record_many(tasks, tf)
    validate_recorded(res, tf, wd, invariants, label, nontrivial, sample_n)


def validate_recorded(res: Result, tf: str, wd: str, invariants: list[str], label: str, nontrivial, sample_n: int = 3,
                      engine: str = "sd") -> None:
    """validate an ndjson file of recorded SD traces with SDTrace.tla and turn rejected traces into replayable violations"""
    out = tlc.validate_traces(tf, "SDTrace", CONF_CLAUSES + invariants + DIAGNOSTICS, wd)
    note_deviations(res, out)
    traces = {}
    for ln in open(tf):
        tr = json.loads(ln)
        traces[tr["tid"]] = tr
    res.cov["traces_validated_against_impl"] += out["traces"]
    res.cov["states"] += out["states"]            # TLC states of the trace validation runs
    res.cov["transitions"] += out["generated"]
    res.cov["trace_validation_states"] = res.cov.get("trace_validation_states", 0) + out["states"]
    res.cov["evaluations"] += sum(len(t["events"]) for t in traces.values())
    seen = set()
    for tr in traces.values():
        key = (net_key(tr["net"]["f"]), json.dumps(trace_signature(tr, len(tr["events"]))))
        if key in seen:
            continue
        seen.add(key)
        if nontrivial(tr):
            res.cov["distinct_nontrivial"] += 1
    for tr in list(traces.values())[:sample_n]:
        res.cov["samples"].append({"tid": tr["tid"], "source": tr.get("meta", ""), "net": tr["net"],
                                   "calls": trace_signature(tr, len(tr["events"])),
                                   "final_nodes": len(tr["events"][-1]["post"]["nodes"])})
    known = load_known()
    by_trace: dict[str, list] = {}
    for (inv, tid, l, op) in out["violations"]:
        by_trace.setdefault(tid, []).append((inv, l, op))
    k = 0
    for tid, vs in sorted(by_trace.items()):
        tr = traces[tid]
        unexplained = []
        for (inv, l, op) in vs:
            hit = [e for e in known.get("open", []) if matches_known(e, res.pid, inv, tr, l)]
            if hit:
                msg = f"KNOWN-FINDING: property={res.pid} {hit[0]['id']}: {hit[0]['what']}"
                if msg not in res.known:
                    res.known.append(msg)
            else:
                unexplained.append((inv, l, op))
        if unexplained:
            k += 1
            if k > 25:
                continue
            vd = os.path.join(WORK, res.pid, "violations", f"{label}_{tid}")
            shutil.rmtree(vd, ignore_errors=True)
            os.makedirs(vd)
            with open(os.path.join(vd, "trace.json"), "w") as f:
                json.dump(tr, f)
            with open(os.path.join(vd, "verdict.json"), "w") as f:
                json.dump({"property": res.pid, "engine": engine, "failing": [{"invariant": i, "event": l, "op": o} for (i, l, o) in unexplained],
                           "calls": trace_signature(tr, len(tr["events"])), "net": tr["net"],
                           "replay": f"cd /verif && ./check {res.pid} --replay {vd}"}, f, indent=1)
            res.violations.append(vd)
