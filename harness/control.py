"""Recording of succession_control calls for ControlTrace.tla."""
from __future__ import annotations

import json
import os
import random
import sys

sys.path.insert(0, os.path.dirname(__file__))
if os.environ.get("VERIF_REPO"):
    sys.path.insert(0, os.environ["VERIF_REPO"])   # seeded-defect runs: import the library from a scratch worktree
import bn  # noqa: E402


def grid_calls(n: int):
    """deterministic argument grid for the hand-built networks: every single-literal target under both strategies (unbounded
    for the internal strategy, bound 2 for 'all': pairs of override nodes), and the positive pair targets under 'all'"""
    for i in range(n):
        for v in (0, 1):
            t = [2] * n
            t[i] = v
            yield {"target": t, "strategy": "internal", "bound": -1, "forbidden": [], "sonly": True, "skipff": False}
            yield {"target": t, "strategy": "all", "bound": 2, "forbidden": [], "sonly": True, "skipff": False}
    for i in range(n):
        for j in range(i + 1, n):
            t = [2] * n
            t[i] = t[j] = 1
            yield {"target": t, "strategy": "all", "bound": 2, "forbidden": [], "sonly": True, "skipff": False}


def record_control(tid: str, tt, seed: int, calls: int, with_history: bool, grid: bool = False) -> dict:
    devnull = os.open(os.devnull, os.O_WRONLY)
    os.dup2(devnull, 2)
    import rec
    import gen
    from biobalm.control import succession_control
    rng = random.Random(seed)
    n = len(tt)
    events = []
    gridit = iter(list(grid_calls(n))) if grid else None
    while True:
        if grid:
            fixed = next(gridit, None)
            if fixed is None:
                break
        else:
            fixed = None
            if len(events) >= calls:
                break
        # one call in six runs on a diagram with a small max_motifs_per_node: the library then either refuses
        # (RuntimeError: recorded as "nothing reported") or, when no node reaches the limit, answers as without it
        maxm = rng.choice([1, 2, 2, 3, 4]) if (fixed is None and rng.random() < 1 / 6) else 0
        sd = rec.make_sd(tt, dict(rec.default_cfg(), maxm=maxm) if maxm else None)
        names = rec.var_names(sd)
        fresh = True
        hist = []
        if maxm:
            with_history_now = False
        else:
            with_history_now = with_history
        if with_history_now and fixed is None and rng.random() < 0.7:
            fresh = False
            for _k in range(rng.randint(1, 3)):
                op = gen.random_op(rng, ["exp", "bfs", "dfs", "min", "minskip", "skipmin", "skiprem", "block", "scc", "tgt", "aseeds"],
                                   len(sd), n)
                if op["n"] > len(sd):
                    continue
                sd, ev = rec.run_op(sd, op)
                hist.append([ev["op"], ev["n"], ev["ret"]])
        target = [rng.choice([0, 1, 2, 2]) for _ in range(n)]
        if all(x == 2 for x in target):
            target[rng.randrange(n)] = rng.randint(0, 1)
        e = {"target": target, "strategy": rng.choice(["internal", "all", "all"]), "bound": rng.choice([-1, -1, 0, 1, 2, 2, 3, n - 1, n]),
             "forbidden": sorted(rng.sample(range(1, n + 1), rng.choice([0, 0, 1, 2]) if n >= 2 else 0)),
             "sonly": rng.random() < 0.5, "skipff": (not fresh) and rng.random() < 0.3, "fresh": fresh, "raised": False,
             "exc": "", "res": [], "hist": hist, "k": "control"}
        if fixed is not None:
            e.update(fixed)
            target = e["target"]
        import signal

        def _alarm(_s, _f):
            raise TimeoutError("Hang: succession_control did not return within 60 s")
        _old = signal.signal(signal.SIGALRM, _alarm)
        signal.setitimer(signal.ITIMER_REAL, 60.0)
        try:
            r = succession_control(sd, {names[i]: v for i, v in enumerate(target) if v != 2}, strategy=e["strategy"],
                                   max_drivers_per_succession_node=None if e["bound"] < 0 else e["bound"],
                                   forbidden_drivers={names[i - 1] for i in e["forbidden"]} or None,
                                   successful_only=e["sonly"], skip_feedforward_successions=e["skipff"])
            for iv in r:
                e["res"].append({"succ": [rec.vec(m, names) for m in iv.succession],
                                 "ctl": [[rec.vec(d, names) for d in step] for step in iv.control],
                                 "ok": bool(iv.successful)})
        except Exception as ex:  # noqa: BLE001
            if maxm and isinstance(ex, RuntimeError) and not isinstance(ex, TimeoutError):
                e["res"] = []                # refused under the motif limit: nothing reported
                e["fresh"] = False           # (C07 speaks about what is returned; a refusal is not compared)
                e["exc"] = "refused: " + str(ex)[:80]
            else:
                e["raised"] = True
                e["exc"] = type(ex).__name__ + ": " + str(ex)[:100]
        finally:
            signal.setitimer(signal.ITIMER_REAL, 0)
            signal.signal(signal.SIGALRM, _old)
        e["maxm"] = maxm
        events.append(e)
    return {"tid": tid, "net": {"n": n, "f": tt}, "events": events}


def _work(task):
    return json.dumps(record_control(task["tid"], task["tt"], task["seed"], task["calls"], task["with_history"], task.get("grid", False)))


def record_many(tasks, outfile, procs=16):
    from concurrent.futures import ProcessPoolExecutor
    os.makedirs(os.path.dirname(outfile), exist_ok=True)
    n = 0
    with ProcessPoolExecutor(max_workers=procs) as ex, open(outfile, "w") as f:
        for line in ex.map(_work, tasks, chunksize=max(1, len(tasks) // (procs * 8))):
            f.write(line + "\n")
            n += 1
    return n
