"""
Twin runs for the relational properties (Twin.tla): each task produces one json line
  {tid, rel, perm, neg, val, a, b, map}
plus the two single traces (validated separately by SDTrace where requested).
"""
from __future__ import annotations

import json
import os
import random
import subprocess
import sys

sys.path.insert(0, os.path.dirname(__file__))
import bn  # noqa: E402

HERE = os.path.dirname(__file__)


def slim(tr: dict) -> list[dict]:
    return [{"op": e["op"], "ret": e["ret"], "out": e["out"], "post": e["post"], "ctl": e.get("ctl", [])} for e in tr["events"]]


def run_in_subprocess(task: dict, hashseed: str) -> dict:
    """execute one recording task in a fresh interpreter with the given PYTHONHASHSEED"""
    env = dict(os.environ)
    env["PYTHONHASHSEED"] = hashseed
    p = subprocess.run(["/venv/bin/python", os.path.join(HERE, "runone.py")], input=json.dumps(task), capture_output=True,
                       text=True, env=env, timeout=600)
    if p.returncode != 0:
        raise RuntimeError("runone failed: " + p.stderr[-2000:])
    return json.loads(p.stdout.strip().splitlines()[-1])


def twin_same(task: dict) -> str:
    """C19: same schedule in fresh processes under different hash seeds, and after unrelated activity"""
    base = {"tid": task["tid"], "tt": task["tt"], "ops": task["ops"], "cfg": task.get("cfg"), "names": task.get("names")}
    a = run_in_subprocess(base, "0")
    out = []
    for k, hs in enumerate(task["hashseeds"]):
        t2 = dict(base)
        if k % 2 == 1:
            t2["prelude"] = task.get("prelude", [])
        b = run_in_subprocess(t2, hs)
        out.append({"tid": f"{task['tid']}_h{hs}{'p' if k % 2 == 1 else ''}", "rel": "same", "perm": [], "neg": [], "val": [],
                    "a": slim(a), "b": slim(b), "map": list(range(1, len(a["events"]) + 1)) if len(a["events"]) == len(b["events"]) else [1],
                    "net": a["net"], "calls": [e["op"] for e in a["events"]], "canonical": False})
    # also twice in one process
    t3 = dict(base)
    t3["twice"] = True
    b = run_in_subprocess(t3, "0")
    out.append({"tid": f"{task['tid']}_twice", "rel": "same", "perm": [], "neg": [], "val": [], "a": slim(a), "b": slim(b),
                "map": list(range(1, len(a["events"]) + 1)), "net": a["net"], "calls": [e["op"] for e in a["events"]], "canonical": False})
    return "\n".join(json.dumps(x) for x in out)


def twin_transp(task: dict) -> str:
    """C16: history vs the same history with pickle / reclaim inserted at every position"""
    import rec
    devnull = os.open(os.devnull, os.O_WRONLY)
    os.dup2(devnull, 2)
    ops = task["ops"]
    kw = {"names": task.get("names"), "api": task.get("api", False)}
    a = rec.record_trace(task["tid"], task["tt"], ops, task.get("cfg"), **kw)
    out = []
    singles = []
    for pos in range(0, len(ops) + 1):
        for ins in task["inserts"]:
            ops_b = ops[:pos] + [{"op": ins}] + ops[pos:]
            b = rec.record_trace(f"{task['tid']}_{ins}{pos}", task["tt"], ops_b, task.get("cfg"), **kw)
            # a events: new + ops ; b events: new + ops with one extra at index pos+1 (0-based pos+1)
            mp = []
            for i in range(len(a["events"])):
                mp.append(i + 1 if i <= pos else i + 2)
            if len(b["events"]) != len(a["events"]) + 1:
                mp = [1]
            out.append({"tid": b["tid"], "rel": "transp", "perm": [], "neg": [], "val": [], "a": slim(a), "b": slim(b), "map": mp,
                        "net": a["net"], "calls": [e["op"] for e in b["events"]], "canonical": False})
            singles.append(b)
    return "\n".join(json.dumps(x) for x in out) + "\n##SINGLES##\n" + "\n".join(json.dumps(x) for x in singles)


WEIRD_NAMES = [["gab1_kin", "erb0_x", "b1_a", "b0_b", "zb1_", "b1_b0_q"], ["tr_a_up_1", "b1_b1_", "kind", "place", "b0_b1_x", "_b0_"],
               ["zeta", "Yotta", "x1", "A_b", "m9", "Q"], ["v10", "v9", "v2", "v1", "v11", "v3"],
               ["B", "a", "C", "b", "A", "c"], ["n_3", "n_1", "n__2", "N_1", "n_0", "n_9"]]


def twin_sigma(task: dict) -> str:
    """C17: same network under renaming, declaration reordering, equivalent formulas, negated encoding, other formats"""
    import rec
    devnull = os.open(os.devnull, os.O_WRONLY)
    os.dup2(devnull, 2)
    rng = random.Random(task["seed"])
    tt = task["tt"]
    n = len(tt)
    ops = task["ops"]
    a = rec.record_trace(task["tid"], tt, ops, task.get("cfg"))
    out, singles = [], []
    for k in range(task["variants"]):
        perm = list(range(n))
        rng.shuffle(perm)
        neg = [rng.randint(0, 1) if task.get("negate", True) else 0 for _ in range(n)]
        tt_b = bn.permute(tt, perm, neg)
        names_b = rng.choice(WEIRD_NAMES)[:n] if rng.random() < 0.7 else bn.names_for(n)
        order = list(range(n))
        rng.shuffle(order)
        style = rng.choice(["dnf", "shannon"])
        text = bn.render_bnet(tt_b, names_b, style, rng, order)
        fmt = rng.choice(["bnet", "bnet", "aeon", "sbml", "bnet-file", "aeon-file", "sbml-file"])
        b = rec.record_trace(f"{task['tid']}_v{k}", tt_b, ops_for_sigma(ops, perm, neg, n, names_b), task.get("cfg"),
                             names=names_b, text=text, fmt=fmt)
        code_b = b["names"]
        # A code index i (names a,b,c.. sorted = harness index) -> B code index
        perm_code = [code_b.index(names_b[perm[i]]) + 1 for i in range(n)]
        mp = list(range(1, len(a["events"]) + 1)) if len(a["events"]) == len(b["events"]) else [1]
        out.append({"tid": b["tid"], "rel": "sigma", "perm": perm_code, "neg": neg, "val": [], "a": slim(a), "b": slim(b), "map": mp,
                    "net": a["net"], "calls": [e["op"] for e in a["events"]], "presentation": {"fmt": fmt, "style": style, "names": names_b},
                    "canonical": all(o["op"] in ("bfs", "dfs", "allsets", "allseeds") for o in ops)})
        singles.append(b)
    return "\n".join(json.dumps(x) for x in out) + "\n##SINGLES##\n" + "\n".join(json.dumps(x) for x in singles)


def ops_for_sigma(ops, perm, neg, n, names_b):
    """id-free ops only (strategies from the root): targets are mapped through sigma"""
    out = []
    for o in ops:
        o = dict(o)
        if "target" in o and o["target"]:
            # harness index -> code index of b is resolved by name inside run_op (targets are vectors in code order):
            # so express the target in b's code order
            code_b = sorted(names_b)
            t = [2] * n
            for i, v in enumerate(o["target"]):
                if v != 2:
                    t[code_b.index(names_b[perm[i]])] = (1 - v) if neg[i] else v
            o["target"] = t
        out.append(o)
    return out


def twin_below(task: dict) -> str:
    """C18: network with free inputs vs the same network with inputs fixed to a valuation"""
    import rec
    devnull = os.open(os.devnull, os.O_WRONLY)
    os.dup2(devnull, 2)
    tt = task["tt"]
    n = len(tt)
    srcs = [i for i in range(n) if all(tt[i][s] == ((s >> i) & 1) for s in range(1 << n))]
    full = task.get("ops") or [{"op": "bfs", "n": 1, "lvl": -1, "size": -1}, {"op": "allsets"}]
    a = rec.record_trace(task["tid"], tt, full)
    out, singles = [], [a]
    for val in range(1 << len(srcs)):
        tt_b = [list(c) for c in tt]
        v = [2] * n
        for j, i in enumerate(srcs):
            c = (val >> j) & 1
            tt_b[i] = [c] * (1 << n)
            v[i] = c
        b = rec.record_trace(f"{task['tid']}_in{val}", tt_b, full)
        out.append({"tid": b["tid"], "rel": "below", "perm": [], "neg": [], "val": v, "a": slim(a)[-1:], "b": slim(b)[-1:], "map": [1],
                    "net": a["net"], "calls": [o["op"] for o in full], "canonical": all(o["op"] in ("bfs", "dfs", "allsets") for o in full)})
        singles.append(b)
    return "\n".join(json.dumps(x) for x in out) + "\n##SINGLES##\n" + "\n".join(json.dumps(x) for x in singles)


def twin_resume(task: dict) -> str:
    """C15: interrupted call + relaxed repetition vs uninterrupted call"""
    import rec
    devnull = os.open(os.devnull, os.O_WRONLY)
    os.dup2(devnull, 2)
    tt = task["tt"]
    relaxed = dict(task["op"])
    for k in ("size", "lvl", "stk"):
        if k in relaxed:
            relaxed[k] = -1
    relaxed.pop("fail_at", None)
    a = rec.record_trace(task["tid"] + "_direct", tt, task["pre"] + [relaxed])
    # the interrupted run: the restrictive configuration applies to the interrupted call only, then the limits are relaxed
    ops_b = list(task["pre"])
    if task.get("cfg"):
        ops_b.append({"op": "setcfg", "newcfg": task["cfg"]})
    ops_b.append(task["op"])
    if task.get("cfg"):
        ops_b.append({"op": "setcfg", "newcfg": rec.default_cfg()})
    ops_b.append(relaxed)
    b = rec.record_trace(task["tid"], tt, ops_b)
    rel = "resume" if relaxed["op"] in ("bfs", "dfs", "tgt") else ("resume_seeds" if relaxed["op"] == "seeds" else "resume_min")
    if len(b["events"]) < len(a["events"]) + 1:
        return ""
    x = {"tid": task["tid"], "rel": rel, "perm": [], "neg": [], "val": [], "a": slim(a)[-1:], "b": slim(b)[-1:], "map": [1],
         "net": a["net"], "calls": [e["op"] for e in b["events"]], "canonical": False}
    return json.dumps(x) + "\n##SINGLES##\n" + json.dumps(b)


FORCE_FALLBACK = {"maxm": 100000, "candlim": 1, "rsthr": 1, "simbudget": 1000, "nfvsthr": 2000}


def twin_fallback(task: dict) -> str:
    """C12: the same history with the default attractor method and with the symbolic fallback (forced by a candidate limit of 1)"""
    import rec
    devnull = os.open(os.devnull, os.O_WRONLY)
    os.dup2(devnull, 2)
    tt, pre, order = task["tt"], task["pre"], task["order"]
    ops_a = pre + [{"op": "seeds", "n": k, "fallback": False} for k in order] + [{"op": "allsets"}]
    ops_b = (pre + [{"op": "setcfg", "newcfg": FORCE_FALLBACK}] + [{"op": "seeds", "n": k, "fallback": True} for k in order]
             + [{"op": "setcfg", "newcfg": rec.default_cfg()}, {"op": "allsets"}])
    a = rec.record_trace(task["tid"] + "_d", tt, ops_a)
    b = rec.record_trace(task["tid"], tt, ops_b)
    if any(e["raised"] for e in a["events"]) or any(e["exc"] == "Hang" for e in b["events"]):
        return ""
    x = {"tid": task["tid"], "rel": "fallback", "perm": [], "neg": [], "val": [], "a": slim(a)[-1:], "b": slim(b)[-1:], "map": [1],
         "net": a["net"], "calls": [e["op"] for e in b["events"]], "canonical": False,
         "fallback_runs": sum(1 for e in b["events"] if e["op"] == "seeds" and e["fallback"] and not e["raised"])}
    return json.dumps(x) + "\n##SINGLES##\n" + json.dumps(b)


KINDS = {"fallback": twin_fallback, "same": twin_same, "transp": twin_transp, "sigma": twin_sigma, "below": twin_below, "resume": twin_resume}


def _work(task):
    return KINDS[task["kind"]](task)


def record_many(tasks, twin_file, single_file, procs=16):
    from concurrent.futures import ProcessPoolExecutor
    os.makedirs(os.path.dirname(twin_file), exist_ok=True)
    n = 0
    with ProcessPoolExecutor(max_workers=procs) as ex, open(twin_file, "w") as f, open(single_file, "w") as g:
        for blob in ex.map(_work, tasks, chunksize=1):
            if not blob:
                continue
            if "##SINGLES##" in blob:
                tw, sg = blob.split("\n##SINGLES##\n")
            else:
                tw, sg = blob, ""
            for ln in tw.splitlines():
                if ln.strip():
                    f.write(ln + "\n")
                    n += 1
            for ln in sg.splitlines():
                if ln.strip():
                    g.write(ln + "\n")
    return n
