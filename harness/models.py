"""
Repository models (5-321 variables) whose percolated core is small: the library's result on the FULL model
is projected onto the core variables and validated by TLC against the core network's truth tables.

 1. root percolation certificate: the harness orders the variables fixed in the root space by the round in
    which its own propagation fixes them (untrusted ranks); TLC checks, per variable and over the support of
    its update function only, that the function is constant with the claimed value given the values of
    lower rank ("perclocal" events of PureTrace.tla), and that no core variable's function is constant.
 2. core network: for every core variable the update function with the fixed values substituted, as a
    truth table over the core variables (harness bnet parser, the same trusted base as for C10).
 3. the library runs build() on the full model; node spaces, edges, flags and seeds are projected onto the core
    variables and validated by SDTrace.tla (Inv_WF, Inv_PartialFaithful, Inv_MinExact, Inv_C01: minimal trap
    spaces and attractors of the core network are computed by TLC by explicit enumeration).
"""
from __future__ import annotations

import json
import os
import signal
import sys

sys.path.insert(0, os.path.dirname(__file__))
if os.environ.get("VERIF_REPO"):
    sys.path.insert(0, os.environ["VERIF_REPO"])
import bn  # noqa: E402
from pure import _ast_vars, _default  # noqa: E402


def kleene(a, env):
    """three-valued evaluation: env maps names to 0/1; missing = unknown (None)"""
    k = a[0]
    if k == "var":
        return env.get(a[1])
    if k == "const":
        return a[1]
    if k == "not":
        x = kleene(a[1], env)
        return None if x is None else 1 - x
    x, y = kleene(a[1], env), kleene(a[2], env)
    if k == "and":
        if x == 0 or y == 0:
            return 0
        return 1 if (x == 1 and y == 1) else None
    if x == 1 or y == 1:
        return 1
    return 0 if (x == 0 and y == 0) else None


def exact_const(ast, env, sup):
    """exact: value of the function if it is constant over all assignments of the unknown support variables"""
    free = [v for v in sup if v not in env]
    if len(free) > 14:
        return None
    vals = set()
    for m in range(1 << len(free)):
        e = dict(env)
        for j, v in enumerate(free):
            e[v] = (m >> j) & 1
        vals.add(bn.eval_ast(ast, e))
        if len(vals) > 1:
            return None
    return vals.pop()


def one_model(task: dict) -> str:
    import rec
    from biobalm import SuccessionDiagram
    devnull = os.open(os.devnull, os.O_WRONLY)
    os.dup2(devnull, 2)
    sys.setrecursionlimit(20000)
    path, max_core, max_local = task["path"], task["max_core"], task["max_local"]
    base = os.path.basename(path)[:3]
    text = open(path).read()
    asts = bn.parse_bnet(text)
    sups = {v: sorted(_ast_vars(a, set())) for v, a in asts.items()}

    def alarm(_s, _f):
        raise TimeoutError()
    signal.signal(signal.SIGALRM, alarm)
    signal.alarm(task.get("timeout", 90))
    try:
        sd = SuccessionDiagram.from_rules(text)
        rec.CTX.how[id(sd)] = {}
        names = rec.var_names(sd)
        root = dict(sd.node_data(0)["space"])
        core = [v for v in names if v not in root]
        if len(core) > max_core:
            return json.dumps({"skipped": base, "why": f"core has {len(core)} variables"})
        if any(len(set(sups.get(v, [])) & set(core)) > 12 for v in core):
            return json.dumps({"skipped": base, "why": "core function with more than 12 core regulators"})
        sd, ev = rec.run_op(sd, {"op": "build"}, timeout_s=task.get("timeout", 90))
        if ev["raised"]:
            return json.dumps({"skipped": base, "why": "build raised " + ev["exc"]})
    except TimeoutError:
        return json.dumps({"skipped": base, "why": "timeout"})
    finally:
        signal.alarm(0)

    # --- 1. percolation certificate -------------------------------------------------------------------------
    env: dict[str, int] = {}
    rank: dict[str, int] = {}
    rnd = 0
    progress = True
    while progress:
        progress = False
        rnd += 1
        newly = {}
        for v in names:
            if v in env or v not in asts:
                continue
            x = kleene(asts[v], env)
            if x is None and v in root:
                x = exact_const(asts[v], {k: env[k] for k in sups[v] if k in env}, sups[v])
            if x is not None:
                newly[v] = x
        for v, x in newly.items():
            env[v] = x
            rank[v] = rnd
            progress = True
    pure_traces = []
    notes = []
    if set(env) != set(root) or any(env[v] != root[v] for v in root):
        notes.append("harness propagation and library root space differ")
    for v in names:
        if v not in asts:
            continue
        local = sorted(set(sups[v]) | {v})
        if len(local) > max_local:
            notes.append(f"{v}: support {len(local)} too large for the local check")
            continue
        n = len(local)
        vi = local.index(v) + 1
        tt_v = [bn.eval_ast(asts[v], {local[j]: (s >> j) & 1 for j in range(n)}) for s in range(1 << n)]
        f = [[] for _ in range(n)]
        f[vi - 1] = tt_v
        e = _default(n)
        e["k"] = "perclocal"
        e["v"] = vi
        e["given"] = False
        if v in root:
            lower = {u: root[u] for u in local if u in root and u != v and rank.get(u, 10 ** 9) < rank.get(v, 0)}
            e["val"] = int(root[v])
        else:
            lower = {u: root[u] for u in local if u in root and u != v}
            e["val"] = 2
        e["sp"] = [lower.get(u, 2) for u in local]
        pure_traces.append({"tid": f"{base}:{names.index(v)}", "variable": v, "net": {"n": n, "f": f, "inp": []}, "light": True,
                            "events": [e]})

    # --- 2. core network ----------------------------------------------------------------------------------------
    nc = len(core)
    tt_core = []
    for v in core:
        if v not in asts:
            tt_core.append([(s >> core.index(v)) & 1 for s in range(1 << nc)])
            continue
        col = []
        for s in range(1 << nc):
            e_ = dict(root)
            for j, u in enumerate(core):
                e_[u] = (s >> j) & 1
            col.append(bn.eval_ast(asts[v], e_))
        tt_core.append(col)

    # --- 3. projection of the library's diagram onto the core ---------------------------------------------------
    post = ev["post"]
    cidx = [names.index(v) for v in core]
    ridx = {names.index(v): root[v] for v in root}
    ok_fixed = True

    def to_core(vecs):
        nonlocal ok_fixed
        out = []
        for vec_ in vecs:
            for i, val in ridx.items():
                if vec_[i] != val:
                    ok_fixed = False
            out.append([vec_[i] for i in cidx])
        return out

    nodes = []
    for nd in post["nodes"]:
        sp = to_core([nd["space"]])[0]
        nodes.append({"space": sp, "expanded": nd["expanded"], "skipped": nd["skipped"], "depth": nd["depth"], "how": nd["how"],
                      "cand": {"k": 0, "v": []},
                      "seeds": {"k": nd["seeds"]["k"], "v": to_core(nd["seeds"]["v"])},
                      "sets": {"k": 0, "v": []}})
    edges = []
    for e_ in post["edges"]:
        edges.append({"p": e_["p"], "c": e_["c"], "ms": [[m[i] for i in cidx] for m in e_["ms"]], "motif": [e_["motif"][i] for i in cidx]})
    idx = [{"sp": nodes[i]["space"], "id": i + 1} for i in range(len(nodes))]
    cpost = {"nodes": nodes, "edges": edges, "idx": idx, "len": post["len"], "depth": post["depth"], "ids": post["ids"]}
    new_ev = dict(rec.DEFAULT_EVENT)
    new_ev.update({"op": "new", "ret": "ok",
                   "post": {"nodes": [{"space": [2] * nc, "expanded": False, "skipped": False, "depth": 0, "how": "none",
                                       "cand": {"k": 0, "v": []}, "seeds": {"k": 0, "v": []}, "sets": {"k": 0, "v": []}}],
                            "edges": [], "idx": [{"sp": [2] * nc, "id": 1}], "len": 1, "depth": 0, "ids": [1]}})
    b_ev = {k: v for k, v in ev.items() if k not in ("post", "loops")}
    b_ev["post"] = cpost
    b_ev["loops"] = []
    b_ev["work"] = 0
    sd_trace = {"tid": f"m{base}", "model": os.path.basename(path), "net": {"n": nc, "f": tt_core}, "names": core,
                "cfg": rec.default_cfg(), "events": [new_ev, b_ev], "full_variables": len(names),
                "fixed_consistent": ok_fixed, "notes": notes, "meta": "repository model projected onto its percolated core"}
    return json.dumps({"sd": sd_trace, "pure": pure_traces})


def record_many(tasks, sd_file, pure_file, procs=16):
    from concurrent.futures import ProcessPoolExecutor
    os.makedirs(os.path.dirname(sd_file), exist_ok=True)
    done, skipped = [], []
    with ProcessPoolExecutor(max_workers=procs) as ex, open(sd_file, "w") as f, open(pure_file, "w") as g:
        for blob in ex.map(one_model, tasks, chunksize=1):
            r = json.loads(blob)
            if "skipped" in r:
                skipped.append(r)
                continue
            f.write(json.dumps(r["sd"]) + "\n")
            for t in r["pure"]:
                g.write(json.dumps(t) + "\n")
            done.append({"model": r["sd"]["model"], "variables": r["sd"]["full_variables"], "core": r["sd"]["net"]["n"],
                         "nodes": len(r["sd"]["events"][1]["post"]["nodes"]), "fixed_consistent": r["sd"]["fixed_consistent"],
                         "notes": r["sd"]["notes"]})
    return done, skipped
