"""
Workload generation: networks x schedules, executed against the real library in a process pool.
A task is a dict {tid, tt, ops | hist_kinds, cfg, names?, text?}; the result is one trace (json line).
"""
from __future__ import annotations

import json
import os
import random
import sys
import time
from concurrent.futures import ProcessPoolExecutor

sys.path.insert(0, os.path.dirname(__file__))
import bn  # noqa: E402

PLAIN_KINDS = ["exp", "bfs", "dfs", "min", "tgt", "aseeds"]
ALL_KINDS = PLAIN_KINDS + ["skipmin", "skiprem", "minskip", "cand", "seeds", "sets", "reclaim", "pickle"]


# ------------------------------------------------------------------------------------------------
# schedules from TLC (MC_SD Emit lines)
# ------------------------------------------------------------------------------------------------
def hist_to_ops(hist: list) -> list[dict]:
    ops = []
    for h in hist:
        k = h[0]
        if k == "exp":
            ops.append({"op": "exp", "n": h[1]})
        elif k == "bfs":
            ops.append({"op": "bfs", "n": h[1], "lvl": h[2], "size": h[3]})
        elif k == "dfs":
            ops.append({"op": "dfs", "n": h[1], "stk": h[2], "size": h[3]})
        elif k == "tgt":
            ops.append({"op": "tgt", "target": h[1], "size": h[2]})
        elif k == "min":
            ops.append({"op": "min", "n": h[1], "size": h[2], "skip": bool(h[3])})
        elif k == "aseeds":
            ops.append({"op": "aseeds", "size": h[1]})
        elif k == "block":
            ops.append({"op": "block", "maa": bool(h[1]), "size": h[2], "optsrc": bool(h[3]), "exact": False})
        elif k == "scc":
            ops.append({"op": "scc", "maa": bool(h[1])})
        elif k == "skipmin":
            ops.append({"op": "skipmin", "n": h[1]})
        elif k == "skiprem":
            ops.append({"op": "skiprem"})
        elif k in ("cand", "seeds", "sets"):
            ops.append({"op": k, "n": h[1]})
        elif k == "reclaim":
            ops.append({"op": "reclaim"})
        elif k == "pickle":
            ops.append({"op": "pickle"})
        else:
            raise ValueError(k)
    return ops


def parse_emitted(lines: list[str]) -> list[dict]:
    out = []
    for ln in lines:
        ln = ln.strip()
        if not (ln.startswith('"{') and ln.endswith('}"')):
            continue
        try:
            rec = json.loads(json.loads(ln))
        except Exception:
            continue
        out.append(rec)
    return out


# ------------------------------------------------------------------------------------------------
# random histories
# ------------------------------------------------------------------------------------------------
def random_op(rng: random.Random, kinds: list[str], nnodes: int, nvars: int, big_limits: bool = False) -> dict:
    k = rng.choice(kinds)
    sizes = [-1, -1, -1, 0, 1, 2, 3, 4, 6] if not big_limits else [-1, -1, 1, 2, 3, 5, 8, 12]
    op = {"op": k, "n": rng.randint(1, nnodes)}
    if k == "api":
        op["n"] = 1
    if k == "bfs":
        op.update(lvl=rng.choice([-1, -1, 0, 1, 2]), size=rng.choice(sizes))
    elif k == "dfs":
        op.update(stk=rng.choice([-1, -1, 0, 1, 2]), size=rng.choice(sizes))
    elif k == "min":
        op.update(size=rng.choice(sizes), skip=False)
    elif k == "minskip":
        op.update(op="min", size=rng.choice(sizes), skip=True)
    elif k == "aseeds":
        op.update(size=rng.choice(sizes))
    elif k == "tgt":
        t = [rng.choice([0, 1, 2, 2]) for _ in range(nvars)]
        if all(x == 2 for x in t):
            t[rng.randrange(nvars)] = rng.randint(0, 1)
        op.update(target=t, size=rng.choice(sizes))
    elif k == "cand":
        op.update(greedy=rng.random() < 0.7, sim=rng.random() < 0.7)
    elif k == "seeds":
        op.update(fallback=rng.random() < 0.2)
    elif k == "block":
        op.update(maa=rng.random() < 0.6, size=rng.choice(sizes), optsrc=rng.random() < 0.6, exact=rng.random() < 0.3)
    elif k == "blockplain":
        op.update(op="block", maa=rng.random() < 0.6, size=rng.choice(sizes), optsrc=False, exact=rng.random() < 0.3)
    elif k == "scc":
        op.update(maa=rng.random() < 0.6)
    elif k == "find":
        op.update(target=[rng.choice([0, 1, 2, 2]) for _ in range(nvars)])
    elif k == "cmp":
        sub = [random_op(rng, ["exp", "bfs", "dfs", "min", "skipmin", "skiprem"], 3, nvars) for _ in range(rng.randint(0, 3))]
        op.update(cmpops=sub)
    return op


class RandomHistory:
    """callable (sd, step) -> op for rec.record_trace; picklable"""

    def __init__(self, seed: int, kinds: list[str], steps: int, tail: list[dict] | None = None,
                 big_limits: bool = False):
        self.seed, self.kinds, self.steps, self.tail = seed, kinds, steps, tail or []
        self.big = big_limits
        self.rng = random.Random(seed)

    def __call__(self, sd, step):
        if step < self.steps:
            op = random_op(self.rng, self.kinds, len(sd), sd.network.variable_count(), self.big)
            if op["op"] == "find" and self.rng.random() < 0.7:
                # query an existing node's space, or a space next to it
                names = list(sd.network.variable_names())
                sp = sd.node_data(self.rng.randrange(len(sd)))["space"]
                t = [int(sp[nm]) if nm in sp else 2 for nm in names]
                r = self.rng.random()
                if r < 0.3 and any(x != 2 for x in t):
                    t[self.rng.choice([i for i, x in enumerate(t) if x != 2])] = 2      # proper superset
                elif r < 0.6 and any(x == 2 for x in t):
                    t[self.rng.choice([i for i, x in enumerate(t) if x == 2])] = self.rng.randint(0, 1)   # proper subset
                op["target"] = t
            return op
        j = step - self.steps
        if j < len(self.tail):
            return dict(self.tail[j])
        return None


# ------------------------------------------------------------------------------------------------
# pool execution
# ------------------------------------------------------------------------------------------------
def _work(task: dict) -> str:
    import rec  # imported in the worker (installs the wrappers)
    devnull = os.open(os.devnull, os.O_WRONLY)
    os.dup2(devnull, 2)  # clingo prints "domRec ignored" notes to stderr
    if task.get("faults"):
        return _work_faults(task, rec)
    ops = task.get("ops")
    if ops is None:
        ops = RandomHistory(task["hseed"], task["kinds"], task["steps"], task.get("tail"), task.get("big", False))
    tr = rec.record_trace(task["tid"], task["tt"], ops, task.get("cfg"), task.get("timeout", 45.0),
                          task.get("names"), task.get("text"))
    tr["meta"] = task.get("meta", "")
    return json.dumps(tr)


def _work_faults(task: dict, rec) -> str:
    """
    Fault enumeration: run the history once without faults, then once per solver call k of its last
    call with that call failing (RuntimeError), each followed by the same call without fault and
    limits (resume).  Returns several json lines.
    """
    base = rec.record_trace(task["tid"], task["tt"], task["ops"], task.get("cfg"), task.get("timeout", 45.0))
    base["meta"] = "fault-free baseline"
    lines = [json.dumps(base)]
    last = task["ops"][-1]
    calls = base["events"][-1]["solver_calls"] if len(base["events"]) == len(task["ops"]) + 1 else 0
    resume = dict(last)
    for k in ("size", "lvl", "stk"):
        if k in resume:
            resume[k] = -1
    for k in range(1, min(calls, task.get("maxfaults", 12)) + 1):
        ops = [dict(o) for o in task["ops"][:-1]] + [dict(last, fail_at=k), resume]
        tr = rec.record_trace(f"{task['tid']}_f{k}", task["tt"], ops, task.get("cfg"), task.get("timeout", 45.0))
        tr["meta"] = f"solver call {k} of the last call fails, then resume"
        lines.append(json.dumps(tr))
    return "\n".join(lines)


def record_many(tasks: list[dict], outfile: str, procs: int = 16) -> dict:
    t0 = time.time()
    os.makedirs(os.path.dirname(outfile), exist_ok=True)
    n = 0
    with ProcessPoolExecutor(max_workers=procs) as ex, open(outfile, "w") as f:
        for line in ex.map(_work, tasks, chunksize=max(1, len(tasks) // (procs * 8))):
            f.write(line + "\n")
            n += line.count("\n") + 1
    return {"traces": n, "wall_s": time.time() - t0}


# ------------------------------------------------------------------------------------------------
# network pools
# ------------------------------------------------------------------------------------------------
def network_pool(rng: random.Random, count: int, sizes: list[int], profiles: list[str] | None = None):
    profiles = profiles or ["mixed", "mixed", "sparse", "modular", "dense"]
    out = []
    for _ in range(count):
        n = rng.choice(sizes)
        out.append(bn.random_network(rng, n, rng.choice(profiles)))
    return out


def gadget_networks() -> dict[str, list[list[int]]]:
    """hand-built networks with known features (motif-avoidant attractors, diamonds, sources ...)"""
    g = {}
    # XNOR pair: fixed points 00 and 11?  x' = y' = (x <-> y): attractors {00?}...
    g["xnor2"] = bn.from_exprs(2, [lambda s: s[0] == s[1], lambda s: s[0] == s[1]])
    g["xor2"] = bn.from_exprs(2, [lambda s: s[0] != s[1], lambda s: s[0] != s[1]])
    g["latch"] = bn.from_exprs(2, [lambda s: s[1], lambda s: s[0]])
    g["negring3"] = bn.from_exprs(3, [lambda s: not s[2], lambda s: s[0], lambda s: s[1]])
    g["c13"] = bn.from_exprs(3, [lambda s: (not s[2]) or s[1], lambda s: s[0] and s[1], lambda s: not s[2]])
    g["c20"] = bn.from_exprs(3, [lambda s: s[0] and not s[2], lambda s: s[0] and s[1],
                                 lambda s: (not s[0]) and (s[1] or s[2])])
    g["c14"] = bn.from_exprs(3, [lambda s: s[1], lambda s: s[0], lambda s: not s[0]])
    g["doc"] = bn.from_exprs(3, [lambda s: s[1], lambda s: s[0] and s[2], lambda s: (not s[0]) or s[1]])
    g["src_gate"] = bn.from_exprs(3, [lambda s: s[0], lambda s: (s[0] and s[1]) or ((not s[0]) and not s[2]),
                                      lambda s: s[1]])
    g["newsrc"] = bn.from_exprs(3, [lambda s: (s[0] and s[1]) or ((not s[1]) and s[2]), lambda s: s[1] or s[0],
                                    lambda s: not s[2]])
    # self-sustaining variable driven by a conjunction / disjunction of external variables (control: external drivers
    # larger than the motif)
    g["gated_or"] = bn.from_exprs(3, [lambda s: s[0] or (s[1] and s[2]), lambda s: not s[2], lambda s: not s[1]])
    g["gated_and"] = bn.from_exprs(3, [lambda s: s[0] and (s[1] or s[2]), lambda s: s[1], lambda s: not s[2]])
    g["gated_or4"] = bn.from_exprs(4, [lambda s: s[0] or (s[1] and s[2] and s[3]), lambda s: s[2], lambda s: s[1], lambda s: not s[3]])
    g["two_gates"] = bn.from_exprs(4, [lambda s: s[0] or (s[2] and s[3]), lambda s: s[1] and (s[2] or not s[3]), lambda s: not s[3], lambda s: not s[2]])
    # a strongly connected module with nested trap spaces; unions of such modules have several source SCCs whose own
    # succession diagrams have inner (non-root, non-minimal) nodes
    g["nscc"] = bn.from_exprs(3, [lambda s: s[1], lambda s: s[0] or s[2], lambda s: s[0] and s[2]])
    g["nscc_latch"] = bn.disjoint_union(g["nscc"], g["latch"])
    g["nscc2"] = bn.disjoint_union(g["nscc"], g["nscc"])
    # one strongly connected module whose motif-avoidant attractor lives in an inner trap space (x = y = 1), plus a switch
    g["maa_inner"] = bn.from_exprs(4, [lambda s: s[1] or (s[2] and s[3]), lambda s: s[0],
                                       lambda s: (s[2] == s[3]) and s[0], lambda s: (s[2] == s[3]) and s[0]])
    g["maa_inner_latch"] = bn.disjoint_union(g["maa_inner"], g["latch"])
    # an input that changes the LOGIC of a downstream module without changing its variable set (round-4 seeds: verdicts or
    # sub-diagrams cached per variable set): below s = 0 a bistable block, below s = 1 the classic motif-avoidant network
    g["src_maa_gate"] = bn.from_exprs(4, [lambda s: s[0], lambda s: ((not s[1]) and (not s[2]) and s[0]) or s[3],
                                          lambda s: ((not s[1]) and (not s[2]) and s[0]) or s[3], lambda s: s[1] and s[2]])
    # below s = 0 a positive cycle {A, B}, below s = 1 a negative one; a second source SCC next to it
    g["src_xor_scc"] = bn.from_exprs(4, [lambda s: s[0], lambda s: s[2] != s[0], lambda s: s[1], lambda s: not s[3]])
    g["src_xor_scc2"] = bn.from_exprs(5, [lambda s: s[0], lambda s: s[2] != s[0], lambda s: s[1], lambda s: s[4], lambda s: s[3]])
    # control: mutual inhibition + XOR feeding a self-sustaining variable; holding X = 1 derives Y = 0 and Z = 1, holding X = Y = 1
    # gives Z = 0 (overrides whose members contradict each other's consequences)
    g["ctl_conflict"] = bn.from_exprs(4, [lambda s: not s[1], lambda s: not s[0], lambda s: s[0] != s[1],
                                          lambda s: (s[2] and s[0] and s[1]) or s[3]])
    g["ctl_conflict5"] = bn.from_exprs(5, [lambda s: not s[1], lambda s: not s[0], lambda s: s[0] != s[1],
                                           lambda s: (s[2] and s[0] and s[1]) or (s[3] and s[4]), lambda s: s[3]])
    # a variable that becomes a source below a motif (X below A = 0) next to an independent bistable pair
    g["derived_src"] = bn.from_exprs(4, [lambda s: s[0], lambda s: s[1] or s[0], lambda s: s[2] and s[3], lambda s: s[2]])
    # nested blocks without a clean minimal block: an upstream module with a motif-avoidant attractor (A, B, C) and a downstream
    # switch (X, Y) that sustains itself whatever the upstream does - the upstream attractor combined with X = Y = 1 is an attractor
    # that only shows when block expansion continues with ALL successors
    g["maa_up_nested"] = bn.from_exprs(5, [lambda s: ((not s[0]) and (not s[1])) or s[2], lambda s: ((not s[0]) and (not s[1])) or s[2],
                                           lambda s: s[0] and s[1], lambda s: s[4] or s[0], lambda s: s[3]])
    g["xnor_latch"] = bn.disjoint_union(g["xnor2"], g["latch"])
    g["xnor_2latch"] = bn.disjoint_union(g["xnor_latch"], g["latch"])
    g["xnor_3latch"] = bn.disjoint_union(g["xnor_2latch"], g["latch"])
    return g


# ------------------------------------------------------------------------------------------------
# synthetic models with LARGE update functions (C10): decision diagrams with big sub-diagrams that are shared between
# branches reached under different sets of decision variables (multiplexers over "hidden weighted" style sums of products
# whose factors are far apart in the variable order)
# ------------------------------------------------------------------------------------------------
def big_function_models(rng: random.Random, count: int, max_support: int = 13) -> list[str]:
    """bnet texts; every model has one or two large functions (support <= max_support incl. the variable) and free inputs"""
    out = []
    for _ in range(count):
        k = 5                                             # pairs p_i & q_i, all p before all q in the (alphabetical) order
        nsel = rng.choice([2, 2, 2, 3])
        while 2 * k + nsel + 2 > max_support and nsel > 2:
            nsel -= 1
        while 2 * k + nsel + 2 > max_support:
            k -= 1
        sel = [f"a{i}" for i in range(nsel)]
        ps = [f"p{i}" for i in range(k)]
        qs = [f"q{i}" for i in range(k)]
        perm = qs[:]
        rng.shuffle(perm)

        def lit(v):
            return v if rng.random() < 0.75 else "!" + v
        big = " | ".join(f"({lit(p)} & {lit(q)})" for p, q in zip(ps, perm))
        big2 = " | ".join(f"({lit(p)} & {lit(q)})" for p, q in zip(ps, perm[::-1]))
        other = rng.choice(["g", "!g", "(g & x)", "(g | x)", "x"])
        cond = rng.choice([" & ".join(sel), " | ".join(sel), f"({sel[0]} & !{sel[1]})", f"(({sel[0]} & {sel[1]}) | (!{sel[0]} & !{sel[1]}))"])
        shape = rng.choice(["mux", "nested", "nested", "twobig"])
        if shape == "mux":
            fx = f"(({cond}) & {other}) | (!({cond}) & ({big}))"
        elif shape == "nested":
            fx = f"({sel[0]} & ({big})) | (!{sel[0]} & (({sel[1]} & {other}) | (!{sel[1]} & ({big}))))"
        else:
            fx = f"(({cond}) & ({big2})) | (!({cond}) & ({big}))"
        lines = [f"x, {fx}", f"g, {rng.choice(['g', 'x', '!x', 'g | x'])}"]
        for v in sel + ps + qs:
            lines.append(f"{v}, {v}")
        out.append("\n".join(lines) + "\n")
    return out
