"""
Recorder, projection and schedule executor.

The recorder wraps biobalm from the outside (no source change is needed for these events): it
patches SuccessionDiagram._expand_one_node, the module-level solver entry points and runs public
calls one by one, logging after each call an event

    {op, <arguments>, ret, out, raised, xl, mts, orc, post}

where `post` is the full projection of the diagram.  Ids are 1-based in traces (id_code + 1), None
limits are -1, spaces are vectors over {0,1,2} in the variable order of sd.network.

The projection reads only public accessors, `dag` and `node_indices`; it is the only place where
implementation data structures are interpreted.
"""
from __future__ import annotations

import os
import pickle
import random
import signal
import sys
import time
from typing import Any

os.environ.setdefault("BIOBALM_VERIF", "1")
if os.environ.get("VERIF_REPO"):
    sys.path.insert(0, os.environ["VERIF_REPO"])   # seeded-defect runs: import the library from a scratch worktree

import biobalm  # noqa: E402
import biobalm.succession_diagram as _sdmod  # noqa: E402
import biobalm._sd_algorithms.expand_minimal_spaces as _minmod  # noqa: E402
import biobalm._sd_algorithms.expand_attractor_seeds as _asmod  # noqa: E402
import biobalm._sd_attractors.attractor_candidates as _candmod  # noqa: E402
import biobalm.trappist_core as _trap  # noqa: E402
from biobalm import SuccessionDiagram  # noqa: E402
from biodivine_aeon import BooleanNetwork  # noqa: E402

from bn import names_for, render_bnet  # noqa: E402


class Hang(Exception):
    pass


class InjectedFault(RuntimeError):
    pass


# ------------------------------------------------------------------------------------------------
# instrumentation (outside wrappers)
# ------------------------------------------------------------------------------------------------
class _Ctx:
    """per-process recording context"""

    def __init__(self):
        self.active: Any = None  # the top-level sd being recorded
        self.how: dict[int, dict[int, str]] = {}  # id(sd) -> node id -> how
        self.xl: list[int] = []
        self.mts: list[list[dict]] = []
        self.orc: list[bool] = []
        self.solver_calls = 0
        self.fail_at: int | None = None  # raise on the k-th solver call (1-based) of the current op
        self.cand_pipeline: list[dict] = []
        self.blockmode = False


CTX = _Ctx()

_orig_expand_one = SuccessionDiagram._expand_one_node
_orig_trappist = _trap.trappist
_orig_reduced = _trap.compute_fixed_point_reduced_STG


def _expand_one_node(self, node_id):
    was = self.dag.nodes[node_id]["expanded"]
    try:
        return _orig_expand_one(self, node_id)
    finally:
        now = self.dag.nodes[node_id]["expanded"]
        if not was and now:
            CTX.how.setdefault(id(self), {})[node_id] = "plain"
            if self is CTX.active:
                CTX.xl.append(node_id + 1)


def _solver_tick():
    CTX.solver_calls += 1
    if CTX.fail_at is not None and CTX.solver_calls == CTX.fail_at:
        raise InjectedFault(f"injected solver failure at call {CTX.solver_calls}")


def _trappist(*args, **kwargs):
    _solver_tick()
    res = _orig_trappist(*args, **kwargs)
    problem = kwargs.get("problem", args[1] if len(args) > 1 else "min")
    if problem == "min":
        CTX.mts.append([dict(x) for x in res])
    return res


def _reduced(*args, **kwargs):
    _solver_tick()
    res = _orig_reduced(*args, **kwargs)
    _pipe_solve(args, kwargs, res)
    return res


def _reduced_aseeds(*args, **kwargs):
    _solver_tick()
    res = _orig_reduced(*args, **kwargs)
    CTX.orc.append(len(res) > 0)
    return res


# ---- symbolic_attractor_test: one record per call, one entry per main-loop iteration (hooks) ----
import biobalm._sd_attractors.attractor_symbolic as _symmod  # noqa: E402
from biobalm import _verif_hooks  # noqa: E402

_orig_attractor_test = _symmod.symbolic_attractor_test
LOOPS: list[dict] = []
_cur_loop: list[dict] = []


def _full_states(sd, node_id, graph, cset) -> list[int]:
    names = var_names(sd)
    space = sd.node_data(node_id)["space"]
    base = 0
    for nm, v in space.items():
        if v:
            base |= 1 << names.index(nm)
    out = []
    if cset is None:
        return out
    for it in cset.vertices().items():
        s = base
        for k, v in it.to_dict().items():
            if v:
                s |= 1 << names.index(graph.get_network_variable_name(k))
        out.append(s)
    return sorted(out)


def _loop_sink(event, f):
    if not _cur_loop:
        return
    rec_ = _cur_loop[-1]
    sd = rec_["_sd"]
    if len(var_names(sd)) > 8:
        return
    graph = f["graph"]
    names = var_names(sd)
    if event == "attractor_test_iteration":
        def idx(vs):
            return sorted(names.index(graph.get_network_variable_name(v)) + 1 for v in vs)
        rec_["its"].append({"reach": _full_states(sd, f["node_id"], graph, f["reach"]),
                            "avoid": _full_states(sd, f["node_id"], graph, f["avoid"]),
                            "noavoid": f["avoid"] is None,
                            "sat": idx(f["saturated"]), "conf": idx(f["conflict"]), "other": idx(f["other"]),
                            "force": bool(f["force_forward"])})
    elif event == "attractor_test_done":
        rec_["final"] = _full_states(sd, f["node_id"], graph, f["reach"])


def _attractor_test(*args, **kwargs):
    a = _bound(_orig_attractor_test, args, kwargs)
    if a is None or not all(k in a for k in ("sd", "node_id", "graph", "pivot", "avoid_set")):
        return _orig_attractor_test(*args, **kwargs)       # refactored signature: no loop records for this call
    sd, node_id, graph, pivot, avoid_set = a["sd"], a["node_id"], a["graph"], a["pivot"], a["avoid_set"]
    names = var_names(sd)
    small = len(names) <= 8
    rec_ = {"_sd": sd, "node": node_id + 1, "space": vec(sd.node_data(node_id)["space"], names),
            "pivot": 0, "avoid0": [], "its": [], "final": [], "result": "hang"}
    if small:
        full = dict(sd.node_data(node_id)["space"])
        full.update(pivot)
        rec_["pivot"] = sum((1 << names.index(nm)) for nm, v in full.items() if v)
        rec_["avoid0"] = _full_states(sd, node_id, graph, avoid_set)
    _cur_loop.append(rec_)
    try:
        r = _orig_attractor_test(*args, **kwargs)
        rec_["result"] = "hit" if r is None else "closure"
        return r
    finally:
        _cur_loop.pop()
        del rec_["_sd"]
        if small and sd is CTX.active:
            LOOPS.append(rec_)



# ---- attractor-candidate pipeline: stage events for CandTrace.tla (wrapped from outside, no source change) ----
_orig_cac = _candmod.compute_attractor_candidates
_orig_mhrs = _candmod.make_heuristic_retained_set
_orig_greedy = _candmod.asp_greedy_retained_set_optimization
_orig_simmin = _candmod.run_simulation_minification
PIPES: list[dict] = []
_pipe: list = [None]
PIPE_MAXN = 6


def _pstate(space: dict, names: list[str]) -> int:
    return sum(1 << names.index(k) for k, v in space.items() if v)


def _cac(*args, **kwargs):
    a = _bound(_orig_cac, args, kwargs)
    if a is None or not all(k in a for k in ("sd", "node_id", "greedy_asp_minification", "simulation_minification")):
        return _orig_cac(*args, **kwargs)
    sd, node_id = a["sd"], a["node_id"]
    greedy_asp_minification, simulation_minification = a["greedy_asp_minification"], a["simulation_minification"]
    names = var_names(sd)
    if sd is not CTX.active or CTX.fail_at is not None or len(names) > PIPE_MAXN or _pipe[0] is not None or a.get("pint_minification"):
        return _orig_cac(*args, **kwargs)
    nd = sd.node_data(node_id)
    space = dict(nd["space"])
    nfree = len(names) - len(space)
    rec_ = {"node": node_id + 1, "_sd": sd, "_space": space,
            "events": [{"k": "begin", "sp": vec(space, names), "greedy": bool(greedy_asp_minification), "sim": bool(simulation_minification),
                        "candlim": int(sd.config["attractor_candidates_limit"]), "rsthr": int(sd.config["retained_set_optimization_threshold"]),
                        # the simulation stops when iterations * |C| > minimum_simulation_budget * (free variables); in units of 2^10 iterations
                        "budget": (int(sd.config["minimum_simulation_budget"]) * nfree) // 1024}]}
    avhint = []
    if nd["expanded"]:
        avhint = [vec(space | sd.edge_stable_motif(node_id, c, reduced=True), names) for c in sd.dag.successors(node_id)]
    _pipe[0] = rec_
    ret, out = "ok", []
    try:
        r = _orig_cac(*args, **kwargs)
        out = [_pstate(x, names) for x in r]
        return r
    except RuntimeError:
        ret = "error"
        raise
    except BaseException:
        ret = "abort"
        raise
    finally:
        _pipe[0] = None
        u = sd.dag.nodes[node_id].get("percolated_nfvs")
        rec_["events"].append({"k": "end", "ret": ret, "C": out, "uknown": u is not None,
                               "U": sorted(names.index(x) + 1 for x in (u or [])), "avhint": avhint})
        del rec_["_sd"], rec_["_space"]
        if ret != "abort" and not rec_.get("broken"):
            PIPES.append(rec_)


def _bound(orig, args, kwargs):
    """arguments of an internal library function by name, whatever its current signature (None if they cannot be bound)"""
    import inspect
    try:
        return inspect.signature(orig).bind(*args, **kwargs).arguments
    except (TypeError, ValueError):
        return None


def _mhrs(*args, **kwargs):
    r = _orig_mhrs(*args, **kwargs)
    rec_ = _pipe[0]
    if rec_ is not None:
        try:
            a = _bound(_orig_mhrs, args, kwargs)
            names = var_names(rec_["_sd"])
            sp = rec_["_space"]
            rec_["events"].append({"k": "retained", "U": sorted(names.index(x) + 1 for x in a["nfvs"]),
                                   "av": [vec(sp | m, names) for m in a["avoid_dnf"]], "R": vec(r, names)})
        except Exception:  # noqa: BLE001 - a refactored stage function: this run is not validated at stage level
            rec_["broken"] = True
    return r


def _greedy_opt(*args, **kwargs):
    rec_ = _pipe[0]
    a = _bound(_orig_greedy, args, kwargs) if rec_ is not None else None
    if rec_ is None or a is None or a.get("sd") is not rec_["_sd"]:
        if rec_ is not None:
            rec_["broken"] = True
        return _orig_greedy(*args, **kwargs)
    names = var_names(rec_["_sd"])
    rec_["events"].append({"k": "gbegin"})
    r = _orig_greedy(*args, **kwargs)
    try:
        rec_["events"].append({"k": "gend", "R": vec(r[0], names), "C": [_pstate(x | rec_["_space"], names) for x in r[1]]})
    except Exception:  # noqa: BLE001
        rec_["broken"] = True
    return r


def _simmin(*args, **kwargs):
    rec_ = _pipe[0]
    a = _bound(_orig_simmin, args, kwargs) if rec_ is not None else None
    if rec_ is None or a is None or a.get("sd") is not rec_["_sd"] or "candidate_states" not in a or "max_iterations" not in a:
        if rec_ is not None:
            rec_["broken"] = True
        return _orig_simmin(*args, **kwargs)
    names = var_names(rec_["_sd"])
    cin = [_pstate(x | rec_["_space"], names) for x in a["candidate_states"]]
    r = _orig_simmin(*args, **kwargs)
    try:
        rec_["events"].append({"k": "sim", "Cin": cin, "it": int(a["max_iterations"]), "X": [_pstate(x | rec_["_space"], names) for x in r]})
    except Exception:  # noqa: BLE001
        rec_["broken"] = True
    return r


def _pipe_solve(args, kwargs, res):
    rec_ = _pipe[0]
    if rec_ is None:
        return
    names = var_names(rec_["_sd"])
    a = _bound(_orig_reduced, args, kwargs)
    if a is None or "retained_set" not in a:
        rec_["broken"] = True
        return
    retained = a["retained_set"]
    lim_ = a.get("solution_limit", None)
    rec_["events"].append({"k": "solve", "r": vec(retained, names), "L": -1 if lim_ is None else int(lim_),
                           "X": [_pstate(x | rec_["_space"], names) for x in res]})

# ---- block expansion: the "is this block clean?" verdicts (queries on component sub-diagrams) ----
_orig_cand = SuccessionDiagram.node_attractor_candidates
_orig_seeds = SuccessionDiagram.node_attractor_seeds
_sub_depth = [0]


def _sub_query(orig):
    def wrapped(self, node_id, *args, **kwargs):
        outer = CTX.blockmode and self is not CTX.active and _sub_depth[0] == 0
        if outer:
            _sub_depth[0] += 1
        try:
            r = orig(self, node_id, *args, **kwargs)
            if outer:
                CTX.orc.append(len(r) == 0)
            return r
        except RuntimeError:
            if outer:
                CTX.orc.append(False)
            raise
        finally:
            if outer:
                _sub_depth[0] -= 1
    return wrapped


def install():
    SuccessionDiagram.node_attractor_candidates = _sub_query(_orig_cand)
    SuccessionDiagram.node_attractor_seeds = _sub_query(_orig_seeds)
    _symmod.symbolic_attractor_test = _attractor_test
    _verif_hooks.set_sink(_loop_sink)
    SuccessionDiagram._expand_one_node = _expand_one_node
    _sdmod.trappist = _trappist
    _minmod.trappist = _trappist
    _asmod.compute_fixed_point_reduced_STG = _reduced_aseeds
    _candmod.compute_fixed_point_reduced_STG = _reduced
    _sdmod.compute_attractor_candidates = _cac
    _candmod.make_heuristic_retained_set = _mhrs
    _candmod.asp_greedy_retained_set_optimization = _greedy_opt
    _candmod.run_simulation_minification = _simmin


install()


# ---- work measure: executed backward jumps (loop back-edges) inside biobalm code (sys.monitoring) ----
class _Work:
    def __init__(self):
        self.count = 0
        self.on = False
        try:
            mon = sys.monitoring
            self.tool = mon.PROFILER_ID
            mon.use_tool_id(self.tool, "verif-work")
            root = os.path.dirname(biobalm.__file__)

            def on_jump(code, src, dst):
                if dst < src and code.co_filename.startswith(root):
                    self.count += 1
                elif not code.co_filename.startswith(root):
                    return mon.DISABLE
            mon.register_callback(self.tool, mon.events.JUMP, on_jump)
            mon.set_events(self.tool, mon.events.JUMP)
            self.on = True
        except Exception:  # noqa: BLE001
            self.on = False

    def take(self) -> int:
        c = self.count
        self.count = 0
        return c


WORK = _Work()


# ------------------------------------------------------------------------------------------------
# projection
# ------------------------------------------------------------------------------------------------
def var_names(sd: SuccessionDiagram) -> list[str]:
    return list(sd.network.variable_names())


def vec(space: dict, names: list[str]) -> list[int]:
    extra = set(space) - set(names)
    if extra:
        # a space over names the network does not have cannot be projected: logged as an invalid vector (code 9), which the
        # PROJ clause of SDTrace.tla rejects - a verdict about the library's data, not a harness failure
        return [9] * len(names)
    return [int(space[nm]) if nm in space else 2 for nm in names]


def _known_list(x, names):
    if x is None:
        return {"k": 0, "v": []}
    return {"k": 1, "v": [vec(s, names) for s in x]}


def vertex_set_states(sd: SuccessionDiagram, vs, names: list[str]) -> list[int]:
    out = []
    for it in vs.items():
        d = it.to_dict()
        s = 0
        for k, v in d.items():
            if v:
                s |= 1 << names.index(sd.network.get_variable_name(k))
        out.append(s)
    return sorted(out)


def _known_sets(sd, x, names):
    if x is None:
        return {"k": 0, "v": []}
    return {"k": 1, "v": [vertex_set_states(sd, vs, names) for vs in x]}


def project(sd: SuccessionDiagram) -> dict:
    names = var_names(sd)
    how = CTX.how.get(id(sd), {})
    nodes = []
    for i in range(len(sd)):
        d = sd.dag.nodes[i]
        nodes.append({
            "space": vec(d["space"], names),
            "expanded": bool(d["expanded"]),
            "skipped": bool(d["skipped"]),
            "depth": int(d["depth"]),
            "how": (how.get(i, "other") if d["expanded"] else "none"),
            "cand": _known_list(d["attractor_candidates"], names),
            "seeds": _known_list(d["attractor_seeds"], names),
            "sets": _known_sets(sd, d["attractor_sets"], names),
        })
    edges = []
    for (p, c, data) in sd.dag.edges(data=True):
        edges.append({"p": p + 1, "c": c + 1,
                      "ms": [vec(m, names) for m in data["all_motifs"]],
                      "motif": vec(data["motif"], names)})
    edges.sort(key=lambda e: (e["p"], e["c"]))
    idx = []
    n = len(names)
    for key, nid in sd.node_indices.items():
        sp = []
        for i in range(n):
            code = (key >> (2 * i)) & 3
            sp.append({0: 2, 2: 0, 3: 1}.get(code, 9))
        if key >> (2 * n):
            sp = [9] * n
        idx.append({"sp": sp, "id": nid + 1})
    idx.sort(key=lambda e: e["id"])
    return {"nodes": nodes, "edges": edges, "idx": idx,
            "len": len(sd), "depth": sd.depth(),
            "ids": [i + 1 for i in sd.node_ids()]}


# ------------------------------------------------------------------------------------------------
# executing one op
# ------------------------------------------------------------------------------------------------
EMPTY_PROJ = {"nodes": [], "edges": [], "idx": [], "len": 0, "depth": 0, "ids": []}
DEFAULT_EVENT = {"op": "", "n": 0, "lvl": -1, "size": -1, "stk": -1, "skip": False, "target": [],
                 "greedy": True, "sim": True, "fallback": False, "maa": True, "optsrc": True, "exact": False,
                 "ret": "none", "out": [], "raised": False, "exc": "", "xl": [], "mts": [], "orc": [],
                 "fail_at": 0, "solver_calls": 0, "loops": [], "pipes": [], "work": 0, "ctl": [], "strategy": "internal", "bound": -1,
                 "forbidden": [], "sonly": True, "cmpops": [], "other": EMPTY_PROJ, "newcfg": {"maxm": 0, "candlim": 0, "rsthr": 0, "simbudget": 0, "nfvsthr": 0}}


def lim(x):
    return None if x is None or x < 0 else x


def _space_of(v: list[int], names: list[str]) -> dict:
    return {names[i]: x for i, x in enumerate(v) if x != 2}


def run_op(sd: SuccessionDiagram, op: dict, timeout_s: float = 45.0) -> tuple[SuccessionDiagram, dict]:
    """execute one public call; returns (possibly new sd object, event)"""
    names = var_names(sd)
    ev = dict(DEFAULT_EVENT)
    ev.update(op)
    kind = ev["op"]
    n = ev["n"] - 1
    CTX.active = sd
    CTX.xl, CTX.mts, CTX.orc = [], [], []
    LOOPS.clear()
    PIPES.clear()
    CTX.solver_calls = 0
    CTX.fail_at = ev["fail_at"] or None
    CTX.blockmode = kind in ("block", "scc")
    WORK.take()
    if kind in ("min", "skipmin") and 0 <= n < len(sd):
        start_space = dict(sd.node_data(n)["space"])
    else:
        start_space = dict(sd.node_data(0)["space"])

    def alarm(_sig, _frm):
        raise Hang()

    old = signal.signal(signal.SIGALRM, alarm)
    signal.setitimer(signal.ITIMER_REAL, timeout_s)
    ret: Any = None
    out: Any = []
    try:
        if kind == "exp":
            sd.node_successors(n, compute=True)
            ret = "ok"
        elif kind == "bfs":
            ret = sd.expand_bfs(n, bfs_level_limit=lim(ev["lvl"]), size_limit=lim(ev["size"]))
        elif kind == "dfs":
            ret = sd.expand_dfs(n, dfs_stack_limit=lim(ev["stk"]), size_limit=lim(ev["size"]))
        elif kind == "tgt":
            ret = sd.expand_to_target(_space_of(ev["target"], names), size_limit=lim(ev["size"]))
        elif kind == "min":
            ret = sd.expand_minimal_spaces(n, size_limit=lim(ev["size"]), skip_ignored=ev["skip"])
        elif kind == "aseeds":
            ret = sd.expand_attractor_seeds(size_limit=lim(ev["size"]))
        elif kind == "skipmin":
            ret = sd.skip_to_minimal(n)
        elif kind == "skiprem":
            ret = sd.skip_remaining()
        elif kind == "cand":
            r = sd.node_attractor_candidates(n, compute=True, greedy_asp_minification=ev["greedy"],
                                             simulation_minification=ev["sim"])
            out = [vec(s, names) for s in r]
            ret = "ok"
        elif kind == "seeds":
            r = sd.node_attractor_seeds(n, compute=True, symbolic_fallback=ev["fallback"])
            out = [vec(s, names) for s in r]
            ret = "ok"
        elif kind == "sets":
            r = sd.node_attractor_sets(n, compute=True)
            out = [vertex_set_states(sd, vs, names) for vs in r]
            ret = "ok"
        elif kind == "reclaim":
            sd.reclaim_node_data()
            ret = "ok"
        elif kind == "pickle":
            how = CTX.how.get(id(sd), {})
            sd2 = pickle.loads(pickle.dumps(sd))
            CTX.how[id(sd2)] = dict(how)
            sd = sd2
            ret = "ok"
        elif kind == "block":
            ret = sd.expand_block(find_motif_avoidant_attractors=ev["maa"], size_limit=lim(ev["size"]),
                                  optimize_source_nodes=ev["optsrc"], exact_attractor_detection=ev["exact"])
        elif kind == "scc":
            ret = sd.expand_scc(find_motif_avoidant_attractors=ev["maa"])
        elif kind == "build":
            sd.build()
            ret = "ok"
        elif kind == "allseeds":
            for i in range(len(sd)):
                sd.node_attractor_seeds(i, compute=True, symbolic_fallback=ev["fallback"])
            ret = "ok"
        elif kind == "control":
            from biobalm.control import succession_control
            r = succession_control(sd, _space_of(ev["target"], names), strategy=ev.get("strategy", "internal"),
                                   max_drivers_per_succession_node=lim(ev.get("bound", -1)),
                                   forbidden_drivers={names[i - 1] for i in ev.get("forbidden", [])} or None,
                                   successful_only=ev.get("sonly", True))
            ev["ctl"] = [{"succ": [vec(m, names) for m in iv.succession],
                          "ctl": [[vec(d, names) for d in step] for step in iv.control], "ok": bool(iv.successful)} for iv in r]
            ret = "ok"
        elif kind == "find":
            r = sd.find_node(_space_of(ev["target"], names))
            ret = str(0 if r is None else r + 1)
        elif kind == "summary":
            out = parse_summary(sd.summary(), names)
            ret = "ok"
        elif kind == "cmp":
            other = make_sd_like(sd)
            CTX.how[id(other)] = {}
            for o in ev["cmpops"]:
                if o.get("n", 1) <= len(other):
                    CTX.active = other
                    other, _e = run_op(other, o, timeout_s)
            CTX.active = sd
            CTX.xl = []        # expansions of the second diagram do not belong to this event
            ev["other"] = project(other)
            out = [1 if sd.is_subgraph(other) else 0, 1 if other.is_subgraph(sd) else 0, 1 if sd.is_isomorphic(other) else 0]
            ret = "ok"
        elif kind == "allsets":
            for i in range(len(sd)):
                sd.node_attractor_sets(i, compute=True)
            ret = "ok"
        elif kind == "expseeds":
            # the aggregated accessor (what the repository's tests and users call); its answer is checked against the
            # per-node data of the projection (AGG clause)
            r = sd.expanded_attractor_seeds()
            out = [[int(k) + 1, [vec(x, names) for x in v]] for k, v in sorted(r.items())]
            ret = "ok"
        elif kind == "api":
            # the read-only accessors in one bundle; every answer is recomputed by TLC from the projection (QUERY clause)
            edges_ = []
            for (p_, c_) in sorted(sd.dag.edges()):
                edges_.append([p_ + 1, c_ + 1, vec(sd.edge_stable_motif(p_, c_), names), vec(sd.edge_stable_motif(p_, c_, reduced=True), names),
                               [vec(m, names) for m in sd.edge_all_stable_motifs(p_, c_)],
                               [vec(m, names) for m in sd.edge_all_stable_motifs(p_, c_, reduced=True)]])
            out = [sd.root() + 1, len(sd), sd.depth(), [i + 1 for i in sd.node_ids()], [i + 1 for i in sd.stub_ids()],
                   [i + 1 for i in sd.expanded_ids()], [i + 1 for i in sd.minimal_trap_spaces()],
                   [i + 1 for i in range(len(sd)) if sd.node_is_minimal(i)],
                   [[i + 1, [c + 1 for c in sd.node_successors(i)]] for i in sd.expanded_ids()], edges_]
            ret = "ok"
        elif kind == "setcfg":
            c = ev["newcfg"]
            sd.config["max_motifs_per_node"] = c["maxm"]
            sd.config["attractor_candidates_limit"] = c["candlim"]
            sd.config["retained_set_optimization_threshold"] = c["rsthr"]
            sd.config["minimum_simulation_budget"] = c["simbudget"]
            sd.config["nfvs_size_threshold"] = c["nfvsthr"]
            ret = "ok"
        elif kind in ("new", "noop"):
            ret = "ok"
        else:
            raise ValueError(f"unknown op {kind}")
    except Hang:
        ev["raised"] = True
        ev["exc"] = "Hang"
        ret = "hang"
    except (RuntimeError, KeyError, AssertionError, ValueError, IndexError) as e:
        ev["raised"] = True
        ev["exc"] = type(e).__name__
        ret = "error"
    finally:
        signal.setitimer(signal.ITIMER_REAL, 0)
        signal.signal(signal.SIGALRM, old)
        CTX.fail_at = None
        CTX.blockmode = False
    if ret is True:
        ret = "true"
    elif ret is False:
        ret = "false"
    elif isinstance(ret, int):
        ret = str(ret)
    ev["ret"] = ret
    ev["out"] = out
    ev["xl"] = list(CTX.xl)
    ev["solver_calls"] = CTX.solver_calls
    ev["orc"] = list(CTX.orc) if kind in ("aseeds", "block", "scc") else []
    if CTX.mts and kind in ("min", "aseeds", "skipmin", "skiprem"):
        ev["mts"] = [vec(start_space | x, names) for x in CTX.mts[0]]
    ev["loops"] = list(LOOPS)
    ev["pipes"] = list(PIPES)
    ev["work"] = WORK.take()
    ev["post"] = project(sd)
    CTX.active = None
    return sd, ev


def parse_summary(text: str, names: list[str]) -> list:
    """summary() text -> [nodes, depth, [[label, space vector, [state vectors]], ...]] (label 1 = minimal, 0 = motif avoidance)"""
    lines = text.split("\n")
    import re as _re
    m = _re.match(r"Succession Diagram with (\d+) nodes and depth (\d+)\.", lines[0])
    order = sorted(names)
    entries = []
    cur = None
    for ln in lines[4:]:
        if ln.startswith("minimal trap space ") or ln.startswith("motif avoidance in "):
            body = ln[len("minimal trap space "):]
            sp = [2] * len(names)
            for ch, nm in zip(body, order):
                if ch != "*":
                    sp[names.index(nm)] = int(ch)
            cur = [1 if ln.startswith("minimal") else 0, sp, []]
            entries.append(cur)
        elif ln.startswith(".") and cur is not None:
            body = ln.lstrip(".")
            st = [2] * len(names)
            for ch, nm in zip(body, order):
                st[names.index(nm)] = int(ch)
            cur[2].append(st)
    return [int(m.group(1)), int(m.group(2)), entries]


def make_sd_like(sd: SuccessionDiagram) -> SuccessionDiagram:
    import copy as _copy
    return SuccessionDiagram(sd.network, _copy.copy(sd.config))


EMPTY_PROJ = {"nodes": [], "edges": [], "idx": [], "len": 0, "depth": 0, "ids": []}


# ------------------------------------------------------------------------------------------------
# traces
# ------------------------------------------------------------------------------------------------
def default_cfg() -> dict:
    return {"maxm": 100000, "candlim": 100000, "rsthr": 1000, "simbudget": 1000, "nfvsthr": 2000}


def api_network(tt: list[list[int]], names: list[str]) -> BooleanNetwork:
    """build the network through the AEON API, keeping the declaration order of `names`"""
    import bn as _bn
    n = len(tt)
    net = BooleanNetwork(list(names))
    for i in range(n):
        for j in _bn.support(tt[i], n):
            net.add_regulation(f"{names[j]} -? {names[i]}")
    for i in range(n):
        expr = _bn._minterm_dnf(tt[i], n, names)
        net.set_update_function(names[i], expr)
    return net


def make_sd(tt: list[list[int]], cfg: dict | None = None, names: list[str] | None = None,
            text: str | None = None, fmt: str = "bnet", api: bool = False) -> SuccessionDiagram:
    names = names or names_for(len(tt))
    if api:
        c0 = SuccessionDiagram.default_config()
        cfg0 = cfg or default_cfg()
        c0["max_motifs_per_node"] = cfg0["maxm"]
        c0["attractor_candidates_limit"] = cfg0["candlim"]
        c0["retained_set_optimization_threshold"] = cfg0["rsthr"]
        c0["minimum_simulation_budget"] = cfg0["simbudget"]
        c0["nfvs_size_threshold"] = cfg0["nfvsthr"]
        return SuccessionDiagram(api_network(tt, names), c0)
    if text is None:
        # half of the networks with source variables present them as free inputs (no update function)
        text = render_bnet(tt, names, free_inputs=(sum(map(sum, tt)) % 2 == 0))
    if not fmt.startswith("bnet") and not text.lstrip().startswith(("<", "$", "#")) and "->" not in text and "-?" not in text:
        net0 = BooleanNetwork.from_bnet(text)
        text = net0.to_aeon() if fmt.startswith("aeon") else net0.to_sbml()
    c = SuccessionDiagram.default_config()
    cfg = cfg or default_cfg()
    c["max_motifs_per_node"] = cfg["maxm"]
    c["attractor_candidates_limit"] = cfg["candlim"]
    c["retained_set_optimization_threshold"] = cfg["rsthr"]
    c["minimum_simulation_budget"] = cfg["simbudget"]
    c["nfvs_size_threshold"] = cfg["nfvsthr"]
    if fmt.endswith("-file"):
        # the same text through from_file (format inferred from the extension)
        import tempfile
        ext = fmt[:-5]
        with tempfile.NamedTemporaryFile("w", suffix="." + ext, delete=False) as f:
            f.write(text)
            path = f.name
        try:
            return SuccessionDiagram.from_file(path, config=c)
        finally:
            os.unlink(path)
    return SuccessionDiagram.from_rules(text, format=fmt, config=c)


def tt_in_code_order(tt: list[list[int]], names: list[str], code_names: list[str]) -> list[list[int]]:
    """re-index truth tables so that variable i is code_names[i]"""
    n = len(tt)
    pos = [names.index(nm) for nm in code_names]  # code index -> harness index
    if pos == list(range(n)):
        return tt
    out = []
    for ci in range(n):
        col = []
        for s_code in range(1 << n):
            s_h = 0
            for cj in range(n):
                if (s_code >> cj) & 1:
                    s_h |= 1 << pos[cj]
            col.append(tt[pos[ci]][s_h])
        out.append(col)
    return out


def record_trace(tid: str, tt: list[list[int]], ops, cfg: dict | None = None, timeout_s: float = 45.0,
                 names: list[str] | None = None, text: str | None = None, fmt: str = "bnet", api: bool = False) -> dict:
    """ops: list of op dicts, or a callable (sd, step) -> op dict | None"""
    cfg = cfg or default_cfg()
    names = names or names_for(len(tt))
    sd = make_sd(tt, cfg, names, text, fmt, api)
    CTX.how[id(sd)] = {}
    code_names = var_names(sd)
    events = []
    sd, ev = run_op(sd, {"op": "new"}, timeout_s)
    events.append(ev)
    step = 0
    while True:
        if callable(ops):
            op = ops(sd, step)
            if op is None:
                break
        else:
            if step >= len(ops):
                break
            op = ops[step]
        step += 1
        if op.get("n", 1) > len(sd):
            op = {"op": "noop"}      # keeps traces of the same schedule aligned
        sd, ev = run_op(sd, op, timeout_s)
        events.append(ev)
        if ev["exc"] == "Hang":
            break
    # pipeline stage records travel next to the events (validated by CandTrace.tla, not by SDTrace.tla)
    pipes = []
    for i, e in enumerate(events):
        for rec_ in e.pop("pipes", []):
            pipes.append({"event": i + 1, "node": rec_["node"], "events": rec_["events"]})
    return {"tid": tid, "net": {"n": len(tt), "f": tt_in_code_order(tt, names, code_names)},
            "names": code_names, "cfg": cfg, "events": events, "pipes": pipes}
