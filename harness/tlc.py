"""
Running TLC: trace validation over sharded ndjson batches, model checking, output parsing.
Standard library only.
"""
from __future__ import annotations

import json
import os
import re
import shutil
import subprocess
import time
from concurrent.futures import ThreadPoolExecutor

JAR = "/opt/veriftools/tla/tla2tools.jar:/opt/veriftools/tla/CommunityModules-deps.jar"
SPEC_DIR = os.path.join(os.path.dirname(os.path.dirname(os.path.abspath(__file__))), "spec")


class TLCFailure(Exception):
    """machinery failure (exit code 2 of the checks)"""


def _java(heap_mb: int, gc_threads: int = 2) -> list[str]:
    return ["java", f"-Xmx{heap_mb}m", "-Xss512m", "-XX:+UseParallelGC", f"-XX:ParallelGCThreads={gc_threads}",
            "-cp", JAR, "tlc2.TLC"]


def write_cfg(path: str, spec: str = "Spec", invariants: list[str] = (), constants: dict | None = None,
              view: str | None = None, constraint: str | None = None, properties: list[str] = (),
              postcondition: str | None = None) -> None:
    lines = [f"SPECIFICATION {spec}"]
    if constants:
        lines.append("CONSTANTS")
        for k, v in constants.items():
            lines.append(f"  {k}" if v is None else f"  {k} = {v}")     # None: the key is a whole line ("A <- B")
    if view:
        lines.append(f"VIEW {view}")
    if constraint:
        lines.append(f"CONSTRAINT {constraint}")
    for i in invariants:
        lines.append(f"INVARIANT {i}")
    for p in properties:
        lines.append(f"PROPERTY {p}")
    if postcondition:
        lines.append(f"POSTCONDITION {postcondition}")
    lines.append("CHECK_DEADLOCK FALSE")
    with open(path, "w") as f:
        f.write("\n".join(lines) + "\n")


def tla_set(xs) -> str:
    def one(x):
        if isinstance(x, str):
            return '"' + x + '"'
        if isinstance(x, bool):
            return "TRUE" if x else "FALSE"
        return str(x)
    return "{" + ", ".join(one(x) for x in xs) + "}"


_VIOL = re.compile(r'^<<"VIOL", "([^"]+)", "([^"]+)", (-?\d+), "([^"]*)">>')
_DEV = re.compile(r'^<<"DEV", "([^"]+)", "([^"]+)", (-?\d+), "([^"]*)">>')
_DONE = re.compile(r'^<<"DONE", "([^"]+)", (\d+)>>')
_GEN = re.compile(r"^(\d+) states generated, (\d+) distinct states found")


EARLY_STOP = int(os.environ.get("VERIF_EARLY_STOP", "40"))      # rejected traces per shard after which a validation run is cut short


_PROGRESS = re.compile(r"^Progress\(\d+\) at [^:]+:\d+:\d+: ([\d,]+) states generated.*?, ([\d,]+) states left on queue", re.M)


def _run(cmd: list[str], cwd: str, env: dict, log: str, timeout: float, stop_after_viol: int = 0, stall_s: float = 0.0) -> tuple[int, str]:
    """
    rc -9: timeout; rc -8: stopped early because the log already reports `stop_after_viol` rejected traces (TLC prints the
    whole state for every failed invariant, which makes runs with hundreds of rejections very slow; the remaining traces of
    such a shard are reported as not examined)
    """
    with open(log, "w") as lf:
        p = subprocess.Popen(cmd, cwd=cwd, env=env, stdout=lf, stderr=subprocess.STDOUT)
        t0 = time.time()
        rc = None
        pos, seen = 0, set()
        while True:
            try:
                rc = p.wait(timeout=3.0)
                break
            except subprocess.TimeoutExpired:
                pass
            if time.time() - t0 > timeout:
                p.kill()
                p.wait()
                rc = -9
                break
            if stall_s:
                # a model-checking run whose progress reports repeat the same "states generated" figure for stall_s seconds is
                # dead (observed once: TLC's disk state queue writer thread had died and all 16 workers waited for it)
                try:
                    txt = open(log, errors="replace").read()[-4000:]
                except OSError:
                    txt = ""
                figs = _PROGRESS.findall(txt)
                # (TLC reports once a minute; during a long liveness check it prints no progress lines at all, so only
                # REPEATED identical reports count)
                k = max(3, int(stall_s // 60))
                if len(figs) >= k and len(set(figs[-k:])) == 1 and figs[-1][0] != "0" and figs[-1][1] != "0":
                    p.kill()
                    p.wait()
                    rc = -7
                    break
            if stop_after_viol:
                try:
                    with open(log, errors="replace") as rf:
                        rf.seek(pos)
                        chunk = rf.read()
                        pos = rf.tell()
                except OSError:
                    chunk = ""
                for m in re.finditer(r'<<"VIOL", "[^"]+", "([^"]+)"', chunk):
                    seen.add(m.group(1))
                if len(seen) >= stop_after_viol:
                    p.kill()
                    p.wait()
                    rc = -8
                    break
    return rc, open(log, errors="replace").read()


def validate_traces(trace_file: str, module: str, invariants: list[str], workdir: str, shards: int = 16,
                    timeout: float = 3000.0, heap_mb: int = 3000, spec_dir: str = SPEC_DIR) -> dict:
    """
    Shard `trace_file` (ndjson), run one TLC per shard on `module` with the given INVARIANTs and
    -continue, and collect VIOL / DONE lines.  Returns
      {"violations": [(inv, tid, event_index, op)], "done": {tid: n_events}, "states": int,
       "traces": int, "wall_s": float}
    Raises TLCFailure if a TLC process crashed or a trace was neither completed nor rejected.
    """
    t0 = time.time()
    timeout = float(os.environ.get("VERIF_TLC_TIMEOUT", timeout))
    os.makedirs(workdir, exist_ok=True)
    lines = [ln for ln in open(trace_file) if ln.strip()]
    if not lines:
        return {"violations": [], "deviations": [], "done": {}, "states": 0, "generated": 0, "traces": 0, "wall_s": 0.0}
    shards = max(1, min(shards, len(lines)))
    # balance by size
    buckets: list[list[str]] = [[] for _ in range(shards)]
    sizes = [0] * shards
    for ln in sorted(lines, key=len, reverse=True):
        i = sizes.index(min(sizes))
        buckets[i].append(ln)
        sizes[i] += len(ln)
    cfg = os.path.join(workdir, f"{module}_run.cfg")
    write_cfg(cfg, invariants=list(dict.fromkeys(list(invariants) + ["Accepted"])))
    jobs = []
    for i, b in enumerate(buckets):
        sd = os.path.join(workdir, f"shard{i}")
        shutil.rmtree(sd, ignore_errors=True)
        os.makedirs(sd)
        tf = os.path.join(sd, "traces.ndjson")
        with open(tf, "w") as f:
            f.writelines(b)
        env = dict(os.environ)
        env["TRACE_FILE"] = tf
        cmd = _java(heap_mb) + ["-workers", "1", "-continue", "-metadir", os.path.join(sd, "meta"),
                                "-noGenerateSpecTE", "-config", cfg, os.path.join(spec_dir, module + ".tla")]
        jobs.append((cmd, spec_dir, env, os.path.join(sd, "tlc.log"), timeout, EARLY_STOP))
    with ThreadPoolExecutor(max_workers=shards) as ex:
        outs = list(ex.map(lambda j: _run(*j), jobs))
    violations = []
    deviations = []
    done: dict[str, int] = {}
    states = 0
    generated = 0
    expected_tids = {}
    for ln in lines:
        rec_ = json.loads(ln)
        expected_tids[rec_["tid"]] = len(rec_.get("events", rec_.get("map", rec_.get("steps", []))))
    for (rc, out), j in zip(outs, jobs):
        if rc == -9:
            raise TLCFailure(f"TLC timed out: {j[3]}")
        for ln in out.splitlines():
            m = _VIOL.match(ln)
            if m:
                violations.append((m.group(1), m.group(2), int(m.group(3)), m.group(4)))
                continue
            m = _DEV.match(ln)
            if m:
                deviations.append((m.group(1), m.group(2), int(m.group(3)), m.group(4)))
                continue
            m = _DONE.match(ln)
            if m:
                done[m.group(1)] = int(m.group(2))
                continue
            m = _GEN.match(ln)
            if m:
                states += int(m.group(2))
                generated += int(m.group(1))
        if "Exception" in out and "TLC threw" in out or "Error: TLC" in out or "java.lang." in out:
            # evaluation errors are machinery failures, never violations
            raise TLCFailure(f"TLC evaluation error, see {j[3]}")
    violations = sorted(set(violations))
    rejected = {v[1] for v in violations}
    missing = [t for t in expected_tids if t not in done and t not in rejected]
    early = sum(1 for (rc, _o) in outs if rc == -8)
    if early:
        # shards cut short after EARLY_STOP rejected traces: the verdict is already negative
        missing = []
    if missing:
        raise TLCFailure(f"{len(missing)} traces were not run to their end (e.g. {missing[:3]}); logs in {workdir}")
    return {"violations": violations, "deviations": sorted(set(deviations)), "done": done, "states": states, "generated": generated, "traces": len(lines),
            "wall_s": time.time() - t0, "shards_stopped_early": early}


_MCRES = re.compile(r"^(\d+) states generated, (\d+) distinct states found, (\d+) states left on queue")


def model_check(module: str, cfg_path: str, workdir: str, workers: int = 16, timeout: float = 3000.0,
                heap_mb: int = 12000, extra: list[str] = (), spec_dir: str = SPEC_DIR, env: dict | None = None) -> dict:
    """Run TLC on a model; returns {"ok", "generated", "distinct", "violated": [inv names], "log", "lines"}"""
    os.makedirs(workdir, exist_ok=True)
    meta = os.path.join(workdir, "meta")
    shutil.rmtree(meta, ignore_errors=True)
    log = os.path.join(workdir, "tlc.log")
    cmd = _java(heap_mb, gc_threads=4) + ["-workers", str(workers), "-metadir", meta, "-noGenerateSpecTE",
                                           "-config", cfg_path] + list(extra) + [os.path.join(spec_dir, module + ".tla")]
    e = dict(os.environ)
    if env:
        e.update(env)
    t0 = time.time()
    rc, out = _run(cmd, spec_dir, e, log, timeout, stall_s=420.0)
    if rc == -7:
        # stalled: one retry with another worker count (fresh metadir)
        shutil.rmtree(meta, ignore_errors=True)
        cmd2 = [("8" if c == str(workers) and cmd[i - 1] == "-workers" else c) for i, c in enumerate(cmd)]
        rc, out = _run(cmd2, spec_dir, e, log, timeout, stall_s=420.0)
    res = {"ok": False, "generated": 0, "distinct": 0, "violated": [], "log": log, "rc": rc,
           "wall_s": time.time() - t0, "lines": []}
    if rc in (-9, -7):
        raise TLCFailure(f"TLC timed out or stalled on {module} ({cfg_path})")
    for ln in out.splitlines():
        m = _MCRES.match(ln)
        if m:
            res["generated"], res["distinct"] = int(m.group(1)), int(m.group(2))
        m = re.match(r"^Error: Invariant (\S+) is violated", ln)
        if m:
            res["violated"].append(m.group(1))
        m = re.match(r"^Error: Temporal properties were violated", ln)
        if m:
            res["violated"].append("TEMPORAL")
        m = re.match(r"^Error: Action property (\S+) is violated", ln)
        if m:
            res["violated"].append(m.group(1))
        if ln.startswith("<<") or ln.startswith('"'):
            res["lines"].append(ln)
    if "Model checking completed. No error has been found." in out:
        res["ok"] = True
    elif not res["violated"]:
        raise TLCFailure(f"TLC did not complete on {module}: see {log}")
    return res
