"""regenerates /verif/MANIFEST.json from the table below"""
import json

LEVEL = {"category": "model_checking"}
CHECKS = {
 "C01": ("TLC model-checks the SD machine (seed contract on all 2-variable networks, all query orders) and validates recorded runs of the six complete strategies: attractors recomputed by TLC from truth tables, bijection seeds<->attractors checked on every completion state; the executions of the repository's own attractor tests (published models projected onto their percolated core) are validated the same way.", "4/C01"),
 "C02": ("TLC enumerates the full hierarchy of percolated trap spaces from the truth tables and compares it (nodes, edges, motif lists, minimal nodes) with recorded full BFS/DFS runs (fresh, and after the first-level stubs were queried so that their Petri nets are cached) on all 256 two-variable networks and random 3-6 variable networks; the SD model is checked exhaustively on the 2-variable networks; every public call the repository's own expansion tests make is recorded by a pytest plugin and validated by the same trace specification.", "4/C02"),
 "C03": ("Model checking of every strategy after every prefix (depth 2, limits) on all 2-variable networks + TLC validation of recorded strategy runs after random prefixes: minimal nodes = inclusion-minimal trap spaces computed by TLC, after every call from the root that reports completion (limited or not).", "4/C03"),
 "C04": ("Exhaustive exploration of histories of plain expansion calls in the TLA+ model (invariant PartialFaithful in every micro-state); one history per abstract idle state is replayed in the library and every logged state is judged by TLC (exact successors and motifs of expanded nodes, none for stubs; structure / expansion order / return value predicted by the model are reported as mechanism diagnostics), then a full BFS must give the full diagram.", "4/C04"),
 "C05": ("Model checking of skip operations x seed queries in all orders on 2-variable networks + TLC validation of partial-expansion/skip/all-seeds runs including gadget compositions up to 8 variables.", "4/C05"),
 "C08": ("Recorded node_attractor_candidates calls under the option x configuration grid on every node kind; TLC checks Covers (every own attractor hit, full states inside the node) or error-with-nothing-cached; contract-level model checked on 2-variable networks. The pipeline itself is a TLA+ state machine (Cand.tla): Candidates.tla model-checks Covers / Error / Termination for every NFVS, retained assignment, solver truncation, flip order and simulation outcome, and CandTrace.tla replays the stage events recorded inside the real pipeline through the same step functions.", "4/C08"),
 "C12": ("TLC checks set i = attractor of seed i for every recorded node_attractor_sets result under all query orders (also after unminimised candidates on unexpanded nodes), reclamation, pickling, and the symbolic fallback forced by a tiny candidate limit; twin runs (relation 'fallback') compare the default method and the forced fallback node by node on expanded, unexpanded and skip nodes.", "4/C12"),
 "C14": ("Model checking of {queries} x {six ways of giving a node successors} x reclaim on all 2-variable networks (CacheFresh in every state); every abstract transition with cached data is replayed in the library and compared (CACHE clause) by TLC; the step clause CacheDiscard (action property in the model, per-event clause on traces) requires that a node that got successors in a call reports no candidate inside one of them.", "4/C14"),
 "C06": ("Every intervention that recorded succession_control calls (fresh and already expanded/skipped/shortcut diagrams) report successful is re-derived by TLC: nested trap spaces, LDOI containment, and attractors of the overridden network recomputed from truth tables (also under small max_motifs_per_node: refusal or the unrestricted answer). The derivation itself (Control.tla) is model-checked against the dynamics for every 2-variable network and the 3-variable catalogue x every target x strategy x bound x forbidden set (MC_Control: T_C06, T_Reach), with two design mutations that TLC must refute.", "4/C06"),
 "C07": ("On fresh diagrams TLC builds the complete expected answer of succession_control from the full succession diagram (paths x motif products, inclusion-minimal driver sets with all forcing valuations, bounds, forbidden sets, flags) and compares it with the recorded output as a set with multiplicities. The expected answer itself (Control.tla) is model-checked to be complete and minimal (MC_Control: T_Reach, T_Cover, T_Min, T_Internal) on all 2-variable and the 3-variable catalogue networks x all queries.", "4/C07"),
 "C09": ("One TLC-validated event per recorded trappist / compute_fixed_point_reduced_STG call against the set-theoretic definition over the enumerated trap spaces of the network and of its time reversal (all argument kinds, limits; networks, fresh Petri nets and nets derived by restriction from an already used parent net); consistency theorems model-checked on all 256 two-variable networks. Conformance of a pure function: adequate use of the tool, not its strength.", "4/C09"),
 "C10": ("TLC checks, for every state of the subspace and every remaining variable, that the recorded Petri net / restricted net / percolated network enables exactly the moves of the update functions, on all two-variable and random 3-6 variable networks, including the nets SuccessionDiagram.node_percolated_petri_net returns for child nodes (cached-parent and global paths); repository models and synthetic large functions (multiplexers over sums of products with big shared decision sub-diagrams, support 14) per update function over its support.", "4/C10"),
 "C11": ("TLC recomputes the least fixed point of value propagation for every recorded percolate_space / strict / conflicts / LDOI / single-driver call (driver queries also through a shared pre-computed LDOI table that must stay the LDOI table; all subspaces of all two-variable networks; random ones on 3-6 variables) and model-checks idempotence and trap preservation as theorems.", "4/C11"),
 "C15": ("Model checking with size/level/stack limits, max_motifs_per_node values and the k-th solver call failing, on all two-variable networks (valid partial diagram, fresh caches, return-value contract in every micro-state); TLC-generated and random limited histories and a solver-fault enumeration are replayed in the library and every event is recomputed by TLC, including the resumed call.", "4/C15"),
 "C13": ("TLC checks Termination (liveness, weak fairness) of the AttractorTest model for every pivot / avoid set / size-oracle answer and that every started driver call of the SD model returns; recorded runs of all operations execute under a watchdog and every main-loop iteration of symbolic_attractor_test (guarded hook) is checked by TLC to be a legal, progressing step; executed loop back-edges are bounded.", "4/C13"),
 "C16": ("Twin validation: every history is re-run with pickle round trips / reclaim_node_data inserted at every position and TLC requires identical projections and outputs after every corresponding call; inserted-run traces are also validated event by event (pickle and reclaim are stuttering steps of the model).", "4/C16"),
 "C17": ("Twin validation under variable permutation + negation + renaming + reformulated update functions + bnet/aeon/sbml: isomorphic full diagrams, same minimal trap spaces and attractor sets under the transformation (TLC), and every presentation run validated against the transformed truth tables.", "4/C17"),
 "C18": ("Disjoint unions and input-fixed networks: TLC validates library results on composed truth tables, and the 'below' twin relation checks the input-conditioned sub-diagram; published models whose percolated core has <= 10 variables are run through build() in full and judged by TLC on the core network (root percolation certified per update function); models with larger cores are listed as not covered.", "4/C18"),
 "C19": ("Twin validation with the identity relation on everything logged: the same history in fresh interpreters under different PYTHONHASHSEED values, twice in one process and after unrelated library activity, also under variable names whose alphabetical order interleaves the modules.", "4/C19"),
 "C20": ("DepthExact / IndexExact / contiguous ids checked by TLC on every logged state of TLC-generated and random histories (incl. skip operations and pickling), ids / depths / index predicted by the model are compared after every call as mechanism diagnostics; find_node, summary, is_subgraph and is_isomorphic answers are recomputed by TLC (QUERY clause); _ensure_edge is validated at action level from arbitrary DAG states (DepthTrace); after build() on a fresh diagram the summary must list every attractor exactly once with the right label (SummaryOnce).", "4/C20"),
}
NOT_YET = {}
ENGINE = {"C16": "tla-twin", "C17": "tla-twin", "C18": "tla-twin", "C19": "tla-twin", "C06": "tla-control", "C07": "tla-control", "C09": "tla-pure", "C10": "tla-pure", "C11": "tla-pure"}
TECH = {"tla-sd": "explicit TLA+ spec (BoolNet/SD) model-checked with TLC + TLC trace validation of recorded library runs (SDTrace) + TLC-generated call histories replayed in the library",
        "tla-pure": "explicit TLA+ definitions (BoolNet/PureTrace) evaluated by TLC on every recorded call (trace validation) + TLC-checked theorems (MC_Theorems)",
        "tla-twin": "relational TLA+ spec (Twin.tla) checked by TLC on pairs of recorded library runs, plus SDTrace validation of each run",
        "tla-control": "explicit TLA+ definitions of succession control (ControlTrace over BoolNet) evaluated by TLC on every recorded succession_control call"}

def main():
    props = [json.loads(l) for l in open("/verif/properties.jsonl")]
    checks = []
    na = []
    for p in props:
        pid = p["id"]
        if pid in CHECKS:
            text, ref = CHECKS[pid]
            checks.append({
                "property_id": pid,
                "quick_cmd": f"./check {pid} --tier quick",
                "thorough_cmd": f"./check {pid} --tier thorough",
                "evidence_file": f"/verif/evidence/{pid}.json",
                "replay_cmd_template": f"./check {pid} --replay {{path}}",
                "engine": ENGINE.get(pid, "tla-sd"),
                "level_claimed": {"category": "model_checking", "text": text, "design_ref": ref},
                "level_note": "bounded: networks <= 6 variables (8 for gadget compositions), histories to the stated depth; trusted: TLC, BoolNet.tla definitions, harness renderer/projection/recorder",
                "technique": TECH[ENGINE.get(pid, "tla-sd")],
            })
        else:
            na.append({"property_id": pid, "reason": NOT_YET.get(pid, "check under construction in this round; see DESIGN.md section 4")})
    m = {"version": 1,
         "setup_cmd": "true",
         "hooks": {"guard": "BIOBALM_VERIF",
                   "enable": "BIOBALM_VERIF=1 in the environment of the harness processes (pure-Python library, no build step); the recorder wraps the library from outside",
                   "baseline_off_cmd": "/verif/tools_baseline.sh",
                   "source_commits": ["c91ad8c"], "add_only": True},
         "engines": [{"name": "tla-sd", "path": "/verif/spec", "serves_properties": sorted(p for p in CHECKS if ENGINE.get(p, "tla-sd") == "tla-sd"),
                      "kind_free_text": "TLA+ specification (BoolNet.tla semantic oracle, SD.tla state machine, MC_SD.tla exhaustive small scope, SDTrace.tla trace validation) + Python recorder/driver"},
                     {"name": "tla-pure", "path": "/verif/spec/PureTrace.tla", "serves_properties": ["C09", "C10", "C11"],
                      "kind_free_text": "per-call validation of pure functions against BoolNet.tla definitions; MC_Theorems.tla"},
                     {"name": "tla-twin", "path": "/verif/spec/Twin.tla", "serves_properties": ["C16", "C17", "C18", "C19"],
                      "kind_free_text": "lock-step relational validation of two recorded executions"},
                     {"name": "tla-control", "path": "/verif/spec/ControlTrace.tla", "serves_properties": ["C06", "C07"],
                      "kind_free_text": "succession control re-derived by TLC from the full succession diagram (Control.tla / ControlTrace.tla); the derivation model-checked against the dynamics (MC_Control.tla)"}],
         "checks": checks,
         "notes": "Checks exit 2 on machinery failure. known findings: /verif/known_findings.json",
         "not_applicable": na}
    json.dump(m, open("/verif/MANIFEST.json", "w"), indent=1)

if __name__ == "__main__":
    main()
