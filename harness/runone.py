"""one recording task in a fresh interpreter (stdin: task json, stdout: trace json) - used for the C19 twin runs"""
import json
import os
import sys

sys.path.insert(0, os.path.dirname(__file__))
devnull = os.open(os.devnull, os.O_WRONLY)
os.dup2(devnull, 2)
import rec  # noqa: E402

task = json.loads(sys.stdin.read())
for p in task.get("prelude", []):
    # unrelated library activity before the run under test
    rec.record_trace("prelude", p["tt"], p["ops"], p.get("cfg"))
    import biobalm.petri_net_translation as pnt
    pnt.DEBUG = False
tr = rec.record_trace(task["tid"], task["tt"], task["ops"], task.get("cfg"), names=task.get("names"))
if task.get("twice"):
    tr = rec.record_trace(task["tid"], task["tt"], task["ops"], task.get("cfg"), names=task.get("names"))
print(json.dumps(tr))
