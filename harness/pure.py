"""
Recording of pure-function calls (one event per call) for PureTrace.tla.
"""
from __future__ import annotations

import itertools
import json
import os
import random
import sys

sys.path.insert(0, os.path.dirname(__file__))
if os.environ.get("VERIF_REPO"):
    sys.path.insert(0, os.environ["VERIF_REPO"])   # seeded-defect runs: import the library from a scratch worktree
import bn  # noqa: E402


def _default(n: int) -> dict:
    free = [2] * n
    return {"k": "", "raised": False, "exc": "", "problem": "", "rev": False, "ensure": free, "avoid": [], "srcs": [],
            "autosrc": False, "limit": -1, "res": [], "retained": free, "pnvars": [], "pn": [], "pnvars0": [],
            "sp": free, "sp0meet": free, "gvars": [], "gtt": [], "remove": False, "res1": free, "res2": [],
            "strict": False, "ldoi": [], "drv": [], "frompn": False, "v": 0, "val": 2, "given": False, "names_in": [], "names_out": [], "hang": False}


def vec(space: dict, names: list[str]) -> list[int]:
    return [int(space[nm]) if nm in space else 2 for nm in names]


def space_of(v: list[int], names: list[str]) -> dict:
    return {names[i]: x for i, x in enumerate(v) if x != 2}


def pn_project(pn, names: list[str]):
    """-> (pnvars [1-based indices], transitions [{v, up, pre}])"""
    from biobalm.petri_net_translation import place_to_variable
    pnvars = sorted({names.index(place_to_variable(p)[0]) + 1 for p, kind in pn.nodes(data="kind") if kind == "place"})
    trans = []
    for t, data in pn.nodes(data=True):
        if data.get("kind") != "transition":
            continue
        pre = [2] * len(names)
        for p in pn.predecessors(t):
            var, positive = place_to_variable(p)
            pre[names.index(var)] = 1 if positive else 0
        trans.append({"v": names.index(data["change"]) + 1, "up": data["direction"] == "up", "pre": pre,
                      "name": t})
    trans.sort(key=lambda x: x["name"])
    for x in trans:
        del x["name"]
    return pnvars, trans


def network_tt_over(g, names: list[str]):
    """truth tables of the variables of AEON network g, over all states of `names` (other variables ignored)"""
    from biodivine_aeon import AsynchronousGraph
    gnames = list(g.variable_names())
    if not gnames:
        return [], []
    graph = AsynchronousGraph(g)
    n = len(names)
    gvars, gtt = [], []
    for gn in gnames:
        if g.get_update_function(gn) is None:
            # free input: identity dynamics
            gvars.append(names.index(gn) + 1)
            gtt.append([(s >> names.index(gn)) & 1 for s in range(1 << n)])
            continue
        f = graph.mk_update_function(gn)
        col = []
        for s in range(1 << n):
            val = {nm: bool((s >> names.index(nm)) & 1) for nm in gnames}
            r = f.r_restrict(val) if val else f
            if r.is_true():
                col.append(1)
            elif r.is_false():
                col.append(0)
            else:
                col.append(9)
        gvars.append(names.index(gn) + 1)
        gtt.append(col)
    return gvars, gtt


def all_spaces(n: int):
    return [list(t) for t in itertools.product((0, 1, 2), repeat=n)]


def record_pure(tid: str, tt: list[list[int]], seed: int, kinds: list[str], per_kind: int, exhaustive_small: bool = False) -> dict:
    import biodivine_aeon as ba
    from biobalm import trappist_core, space_utils, petri_net_translation as pnt, drivers
    devnull = os.open(os.devnull, os.O_WRONLY)
    os.dup2(devnull, 2)
    rng = random.Random(seed)
    n = len(tt)
    names0 = bn.names_for(n)
    net = ba.BooleanNetwork.from_bnet(bn.render_bnet(tt, names0, free_inputs=rng.random() < 0.5))
    names = list(net.variable_names())
    assert names == names0
    graph = ba.AsynchronousGraph(net)
    pn = pnt.network_to_petrinet(net)
    spaces = all_spaces(n)
    events = []

    class _Hang(Exception):
        pass

    def _alarm(_s, _f):
        raise _Hang()

    def emit(e, fn):
        import signal
        old = signal.signal(signal.SIGALRM, _alarm)
        signal.setitimer(signal.ITIMER_REAL, 45.0)       # watchdog: a pure call that does not return is reported, not waited for
        try:
            fn(e)
        except _Hang:
            e["raised"] = True
            e["hang"] = True
            e["exc"] = "Hang: the call did not return within 45 s"
        except Exception as ex:  # noqa: BLE001
            e["raised"] = True
            e["exc"] = type(ex).__name__ + ": " + str(ex)[:100]
        finally:
            signal.setitimer(signal.ITIMER_REAL, 0)
            signal.signal(signal.SIGALRM, old)
        events.append(e)

    def rand_space(p_free=0.5):
        return [2 if rng.random() < p_free else rng.randint(0, 1) for _ in range(n)]

    if "trappist" in kinds:
        for _ in range(per_kind):
            e = _default(n)
            e["k"] = "trappist"
            e["problem"] = rng.choice(["min", "max", "fix"])
            e["rev"] = rng.random() < 0.4
            e["ensure"] = rand_space(0.7)
            if e["problem"] == "max" and all(x != 2 for x in e["ensure"]):
                e["ensure"][rng.randrange(n)] = 2
            e["avoid"] = [s for s in (rand_space(0.5) for _ in range(rng.choice([0, 0, 1, 2, 3]))) if any(x != 2 for x in s)]
            mode = rng.choice(["auto", "none", "some"])
            e["autosrc"] = mode == "auto"
            e["srcs"] = [] if mode != "some" else sorted(rng.sample(range(1, n + 1), rng.randint(1, n)))
            e["limit"] = rng.choice([-1, -1, -1, 0, 1, 2, 3])
            e["frompn"] = rng.random() < 0.5

            def call(e):
                r = trappist_core.trappist(
                    pn if e["frompn"] else net, problem=e["problem"], reverse_time=e["rev"],
                    solution_limit=None if e["limit"] < 0 else e["limit"],
                    ensure_subspace=space_of(e["ensure"], names),
                    avoid_subspaces=[space_of(a, names) for a in e["avoid"]],
                    optimize_source_variables=None if e["autosrc"] else [names[i - 1] for i in e["srcs"]])
                # solutions mention only fixed variables; fixed values of ensure are part of the solution
                e["res"] = [vec(x, names) for x in r]
            emit(e, call)

    if "trappist_grid" in kinds and n == 2:
        # exhaustive argument grid on two-variable networks: every enclosing subspace x (no / every single avoided subspace)
        # x problem x time direction, and every retained set x enclosing subspace for the reduced-STG solver
        nonfree = [sp for sp in spaces if any(x != 2 for x in sp)]
        for ens in spaces:
            for av in [[]] + [[a] for a in nonfree]:
                for problem in ("min", "max", "fix"):
                    if problem == "max" and all(x != 2 for x in ens):
                        continue
                    for rev in (False, True):
                        e = _default(n)
                        e.update(k="trappist", problem=problem, rev=rev, ensure=list(ens), avoid=[list(a) for a in av],
                                 autosrc=True, limit=-1, frompn=bool(len(events) % 2))

                        def call(e):
                            r = trappist_core.trappist(pn if e["frompn"] else net, problem=e["problem"], reverse_time=e["rev"],
                                                       ensure_subspace=space_of(e["ensure"], names),
                                                       avoid_subspaces=[space_of(a, names) for a in e["avoid"]])
                            e["res"] = [vec(x, names) for x in r]
                        emit(e, call)
        for ret in spaces:
            for ens in spaces:
                e = _default(n)
                e.update(k="reduced", retained=list(ret), ensure=list(ens), avoid=[], limit=-1)

                def call(e):
                    r = trappist_core.compute_fixed_point_reduced_STG(pn, space_of(e["retained"], names),
                                                                      ensure_subspace=space_of(e["ensure"], names))
                    e["res"] = [vec(x, names) for x in r]
                emit(e, call)

    if "reduced" in kinds:
        for _ in range(per_kind):
            e = _default(n)
            e["k"] = "reduced"
            e["retained"] = rand_space(0.5)
            e["ensure"] = rand_space(0.8)
            e["avoid"] = [rand_space(0.5) for _ in range(rng.choice([0, 0, 1, 2]))]
            e["limit"] = rng.choice([-1, -1, -1, 0, 1, 2])

            def call(e):
                r = trappist_core.compute_fixed_point_reduced_STG(
                    pn, space_of(e["retained"], names), ensure_subspace=space_of(e["ensure"], names),
                    avoid_subspaces=[space_of(a, names) for a in e["avoid"]],
                    solution_limit=None if e["limit"] < 0 else e["limit"])
                e["res"] = [vec(x, names) for x in r]
            emit(e, call)

    if "pn" in kinds:
        e = _default(n)
        e["k"] = "pn"

        def call(e):
            e["pnvars"], e["pn"] = pn_project(pnt.network_to_petrinet(net), names)
        emit(e, call)

    if "restrict" in kinds:
        for _ in range(per_kind):
            e = _default(n)
            e["k"] = "restrict"
            sp0 = rand_space(0.8)
            sp = rand_space(0.6)
            # restrict twice (as node_percolated_petri_net does from a parent's net)
            for i in range(n):
                if sp0[i] != 2 and sp[i] != 2 and sp[i] != sp0[i]:
                    sp[i] = sp0[i]
            e["sp"] = sp
            e["sp0meet"] = [sp0[i] if sp0[i] != 2 else sp[i] for i in range(n)]

            def call(e, sp0=sp0):
                pn0 = pnt.restrict_petrinet_to_subspace(pn, space_of(sp0, names))
                e["pnvars0"], _ = pn_project(pn0, names)
                pn1 = pnt.restrict_petrinet_to_subspace(pn0, space_of(e["sp"], names))
                e["pnvars"], e["pn"] = pn_project(pn1, names)
            emit(e, call)

    if "sdpn" in kinds:
        # the nets a succession diagram keeps for its nodes (node_percolated_petri_net): computed from the global net, or
        # from the cached net of a parent node - requested here in the orders that exercise both paths
        from biobalm import SuccessionDiagram
        try:
            sd = SuccessionDiagram(net)
            sd.expand_bfs(bfs_level_limit=2, size_limit=24)
            sd_ok = True
        except Exception:  # noqa: BLE001
            sd_ok = False
        if sd_ok:
            order = []
            for p_id in list(sd.expanded_ids())[:4]:
                kids = sd.node_successors(p_id)
                mode = rng.choice(["cached-parent", "cached-parent", "global", "explicit-uncached"])
                order.append((p_id, kids[:3], mode))
            for p_id, kids, mode in order:
                for c_id in kids:
                    e = _default(n)
                    e["k"] = "restrict"
                    e["sp"] = vec(sd.node_data(c_id)["space"], names)
                    e["sp0meet"] = list(e["sp"])
                    e["pnvars0"] = list(range(1, n + 1))

                    def call(e, p_id=p_id, c_id=c_id, mode=mode):
                        if mode == "cached-parent":
                            sd.node_percolated_petri_net(p_id, compute=True)
                            pn1 = sd.node_percolated_petri_net(c_id, compute=True, parent_id=p_id)
                        elif mode == "explicit-uncached":
                            sd.node_data(p_id)["percolated_petri_net"] = None
                            pn1 = sd.node_percolated_petri_net(c_id, compute=True, parent_id=p_id)
                        else:
                            pn1 = sd.node_percolated_petri_net(c_id, compute=True)
                        e["pnvars"], e["pn"] = pn_project(pn1, names)
                        sd.node_data(c_id)["percolated_petri_net"] = None     # the next request recomputes
                    emit(e, call)
                    # ... and the percolated network the diagram reports for the node
                    e2 = _default(n)
                    e2["k"] = "percnet"
                    e2["sp"] = vec(sd.node_data(c_id)["space"], names)
                    e2["remove"] = True

                    def call2(e2, c_id=c_id):
                        g = sd.node_percolated_network(c_id, compute=True)
                        e2["gvars"], e2["gtt"] = network_tt_over(g, names)
                    emit(e2, call2)

    if "percnet" in kinds:
        for _ in range(per_kind):
            e = _default(n)
            e["k"] = "percnet"
            e["sp"] = rand_space(0.7)
            e["remove"] = rng.random() < 0.6

            def call(e):
                g = space_utils.percolate_network(net, space_of(e["sp"], names), graph if rng.random() < 0.5 else None,
                                                  remove_constants=e["remove"])
                e["gvars"], e["gtt"] = network_tt_over(g, names)
            emit(e, call)

    todo_spaces = spaces if (exhaustive_small and n <= 3) else [rand_space(rng.choice([0.3, 0.6, 0.8])) for _ in range(per_kind)]
    for k in ("perc", "strict", "conflicts"):
        if k not in kinds:
            continue
        for sp in todo_spaces:
            e = _default(n)
            e["k"] = k
            e["sp"] = list(sp)
            e["strict"] = rng.random() < 0.5

            def call(e, k=k):
                s = space_of(e["sp"], names)
                if k == "perc":
                    e["res1"] = vec(space_utils.percolate_space(graph, s), names)
                elif k == "strict":
                    e["res1"] = vec(space_utils.percolate_space_strict(graph, s), names)
                else:
                    e["res2"] = sorted(names.index(x) + 1 for x in space_utils.percolation_conflicts(graph, s, e["strict"]))
            emit(e, call)

    if "sanitize" in kinds:
        pool = ["a_45[x]", "b12{z}", "c[", "c]", "c_", "_c_", "x y", "x-y", "x.y", "TNF\u03b1", "NF\u03baB", "I\u03baB\u03b1", "g\u00e9ne", "x\u00b2",
                "9lives", "A", "a", "_", "gab1_kin", "erb0_x", "b1_a", "b0_b1_x", "__", "p53", "p53*", "p53'", "v(1)", "v[1]", "v{1}", "v<1>", "q|r", "q&r", "\u0434\u043d\u043a"]
        for _ in range(max(2, per_kind // 3)):
            e = _default(n)
            e["k"] = "sanitize"
            clash = [["x_", "x[", "x]", "_x_"], ["a.b", "a-b", "a_b", "_a_b"], ["q_", "q!", "q?", "q*"], ["_", "[", "]", "{"]]
            r_ = rng.random()
            if r_ < 0.6:
                chosen = rng.sample(pool, n)
            elif r_ < 0.9:
                # names that collide after sanitizing, also twice in a row (x_, x[, x] -> x_, _x_, __x_)
                base = rng.choice(clash)
                chosen = (base[:n] if n <= 4 else base + rng.sample(pool, n - 4))
                chosen = list(chosen)
                rng.shuffle(chosen)
            else:
                chosen = [rng.choice(["x[", "x]", "x_", "x{"]) for _ in range(n)]
            if len(set(chosen)) < n:
                chosen = rng.sample(pool, n)

            def call(e, chosen=chosen):
                import copy as _copy
                net2 = _copy.copy(net)
                order = list(range(n))
                rng.shuffle(order)
                for i in range(n):
                    net2.set_variable_name(net2.variables()[i], f"tmp_name_{i}")
                for i in order:
                    net2.set_variable_name(net2.variables()[i], chosen[i])
                e["names_in"] = [[ord(ch) for ch in net2.get_variable_name(v)] for v in net2.variables()]
                out = pnt.sanitize_network_names(net2)
                e["names_out"] = [[ord(ch) for ch in out.get_variable_name(v)] for v in out.variables()]
                # dynamics of the result, positionally (variable i of the result is variable i of the input)
                onames = list(out.variable_names())
                g = ba.AsynchronousGraph(out)
                cols = []
                for i in range(n):
                    if out.get_update_function(onames[i]) is None:
                        cols.append([(s_ >> i) & 1 for s_ in range(1 << n)])
                        continue
                    fb = g.mk_update_function(onames[i])
                    col = []
                    for s_ in range(1 << n):
                        r = fb.r_restrict({onames[j]: bool((s_ >> j) & 1) for j in range(n)})
                        col.append(1 if r.is_true() else 0 if r.is_false() else 9)
                    cols.append(col)
                e["gtt"] = cols
                # the sanitized network must be accepted by the solver pipeline
                pnt.network_to_petrinet(out)
                trappist_core.trappist(out, problem="min")
            emit(e, call)

    if "ldoi" in kinds:
        e = _default(n)
        e["k"] = "ldoi"

        def call(e):
            r = drivers.find_single_node_LDOIs(graph if rng.random() < 0.5 else net)
            e["ldoi"] = [{"v": names.index(v) + 1, "val": int(x), "sp": vec(sp, names)} for (v, x), sp in sorted(r.items())]
        emit(e, call)
    if "drivers" in kinds and "ldoi" in kinds:
        # the documented way of amortising the LDOI table: compute it once, pass it to several driver queries; every
        # query must answer as without the table, and the table must still be the LDOI table afterwards
        e0 = _default(n)
        e0["k"] = "ldoi"
        table = {}

        def call(e):
            table.update(drivers.find_single_node_LDOIs(graph))
            for sp in todo_spaces[: max(2, per_kind // 2)]:
                ed = _default(n)
                ed["k"] = "drivers"
                ed["sp"] = list(sp)
                r = drivers.find_single_drivers(space_of(sp, names), graph, LDOIs=table)
                ed["drv"] = [{"v": names.index(v) + 1, "val": int(x)} for (v, x) in sorted(r)]
                events.append(ed)
            e["ldoi"] = [{"v": names.index(v) + 1, "val": int(x), "sp": vec(sp, names)} for (v, x), sp in sorted(table.items())]
        emit(e0, call)
    if "drivers" in kinds:
        for sp in (todo_spaces if n <= 2 else todo_spaces[:per_kind]):
            e = _default(n)
            e["k"] = "drivers"
            e["sp"] = list(sp)

            def call(e):
                r = drivers.find_single_drivers(space_of(e["sp"], names), net)
                e["drv"] = [{"v": names.index(v) + 1, "val": int(x)} for (v, x) in sorted(r)]
            emit(e, call)
    inputs = [i + 1 for i, nm in enumerate(names) if net.get_update_function(nm) is None]
    return {"tid": tid, "net": {"n": n, "f": tt, "inp": inputs}, "light": False, "events": events}


# ------------------------------------------------------------------------------------------------
# repository models: per update function, over the support of the function (locality)
# ------------------------------------------------------------------------------------------------
def _ast_vars(a, acc):
    if a[0] == "var":
        acc.add(a[1])
    else:
        for y in a[1:]:
            if isinstance(y, tuple):
                _ast_vars(y, acc)
    return acc


def record_model(path: str, seed: int, max_local: int, subspaces: int) -> list[dict]:
    """
    One trace per update function of the model (support + the variable itself <= max_local variables):
      pnvar      the transitions of the variable in network_to_petrinet(model) encode its update function
      pnvar      the same after restrict_petrinet_to_subspace for random subspaces
      fnlocal    the update function in percolate_network(model, space) equals the original on the percolated space
      perclocal  percolate_space fixed / left free this variable correctly given the values fixed around it
    Returns traces; functions with a larger support are returned as {"skipped": name}.
    """
    import biodivine_aeon as ba
    from biobalm import space_utils, petri_net_translation as pnt
    devnull = os.open(os.devnull, os.O_WRONLY)
    os.dup2(devnull, 2)
    sys.setrecursionlimit(20000)
    rng = random.Random(seed)
    text = open(path).read()
    asts = bn.parse_bnet(text)
    net = ba.BooleanNetwork.from_bnet(text).infer_valid_graph()   # (as SuccessionDiagram does: tautologies like `x | !x` occur)
    names = list(net.variable_names())
    graph = ba.AsynchronousGraph(net)
    pn = pnt.network_to_petrinet(net)
    base = os.path.basename(path)
    # transitions per variable
    from biobalm.petri_net_translation import place_to_variable

    def trans_of(pnet, var):
        out = []
        for t, data in pnet.nodes(data=True):
            if data.get("kind") == "transition" and data["change"] == var:
                pre = {}
                for p_ in pnet.predecessors(t):
                    v_, pos = place_to_variable(p_)
                    pre[v_] = 1 if pos else 0
                out.append((data["direction"] == "up", pre))
        return out

    # a few random subspaces (some variables fixed) and their percolations / restricted nets / percolated networks
    spaces = []
    for _ in range(subspaces):
        k = rng.randint(1, max(1, min(6, len(names) // 2)))
        sp = {nm: rng.randint(0, 1) for nm in rng.sample(names, k)}
        ps = space_utils.percolate_space(graph, sp)
        rpn = pnt.restrict_petrinet_to_subspace(pn, ps)
        g = space_utils.percolate_network(net, sp, graph, remove_constants=False)
        spaces.append((sp, ps, rpn, g))
    traces = []
    for v in names:
        if v not in asts:
            continue
        sup = _ast_vars(asts[v], set())
        local = sorted(sup | {v})
        if len(local) > max_local:
            traces.append({"skipped": f"{base}:{v}", "support": len(local)})
            continue
        n = len(local)
        vi = local.index(v) + 1
        tt_v = [bn.eval_ast(asts[v], {local[j]: (s >> j) & 1 for j in range(n)}) for s in range(1 << n)]
        f = [[] for _ in range(n)]
        f[vi - 1] = tt_v
        events = []

        def cube(pre):
            out = [2] * n
            bad = False
            for nm, val in pre.items():
                if nm in local:
                    out[local.index(nm)] = val
                else:
                    bad = True
            return out, bad

        def pn_event(pnet, spvec):
            e = _default(n)
            e["k"] = "pnvar"
            e["v"] = vi
            e["sp"] = spvec
            tr_ = []
            for up, pre in trans_of(pnet, v):
                c, bad = cube(pre)
                if bad:
                    e["raised"] = True
                    e["exc"] = "transition mentions a variable outside the support"
                tr_.append({"v": vi, "up": up, "pre": c})
            e["pn"] = tr_
            return e

        events.append(pn_event(pn, [2] * n))
        for (sp, ps, rpn, g) in spaces:
            psl = [int(ps[nm]) if nm in ps else 2 for nm in local]
            if v not in ps:
                events.append(pn_event(rpn, psl))
                # percolated network: function of v on the percolated space
                gf = graph_fn_local(g, v, local)
                if gf is not None:
                    e = _default(n)
                    e["k"] = "fnlocal"
                    e["v"] = vi
                    e["sp"] = psl
                    e["gtt"] = [gf]
                    events.append(e)
            # percolation locally: the value of v in the percolated space vs constancy of f_v on it
            e = _default(n)
            e["k"] = "perclocal"
            e["v"] = vi
            given = v in sp
            others = [psl[j] if j != vi - 1 else 2 for j in range(n)]
            e["sp"] = others
            e["val"] = int(ps[v]) if v in ps else 2
            e["given"] = given
            events.append(e)
        for e in events:
            e.setdefault("v", 0)
            e.setdefault("val", 2)
            e.setdefault("given", False)
        # (short ids: TLC wraps long PrintT lines)
        traces.append({"tid": f"{base[:3]}:{names.index(v)}", "variable": v, "net": {"n": n, "f": f, "inp": []}, "light": True, "events": events})
    return traces


def graph_fn_local(g, v, local):
    """truth table of variable v of AEON network g over the variables `local` (None if v is not in g or depends on others)"""
    from biodivine_aeon import AsynchronousGraph
    if v not in g.variable_names():
        return None
    if g.get_update_function(v) is None:
        return None
    ag = AsynchronousGraph(g)
    fb = ag.mk_update_function(v)
    col = []
    n = len(local)
    for s in range(1 << n):
        r = fb.r_restrict({nm: bool((s >> j) & 1) for j, nm in enumerate(local)})
        col.append(1 if r.is_true() else 0 if r.is_false() else 9)
    return col


def _work_model(task: dict) -> str:
    trs = record_model(task["path"], task["seed"], task["max_local"], task["subspaces"])
    return "\n".join(json.dumps(t) for t in trs)


def record_models(tasks: list[dict], outfile: str, procs: int = 16) -> dict:
    from concurrent.futures import ProcessPoolExecutor
    os.makedirs(os.path.dirname(outfile), exist_ok=True)
    n = 0
    skipped = []
    with ProcessPoolExecutor(max_workers=procs) as ex, open(outfile, "w") as f:
        for blob in ex.map(_work_model, tasks, chunksize=1):
            for ln in blob.splitlines():
                if not ln.strip():
                    continue
                if ln.startswith('{"skipped"'):
                    skipped.append(json.loads(ln))
                    continue
                f.write(ln + "\n")
                n += 1
    return {"traces": n, "skipped": skipped}


def record_restricted(tid: str, tt: list[list[int]], seed: int, per_kind: int) -> dict:
    """
    trappist on a net DERIVED from a shared Petri net: the net of the whole network is built once, used for a few solver
    calls (whatever the solver remembers about it is now there), restricted to a random subspace sp0, and the restricted net
    is given to the solver.  The trace is judged against the network in which the variables fixed by sp0 are constants
    (results are completed with the values of sp0); forward time only (the reversal of a constant is not a constant).
    """
    import biodivine_aeon as ba
    from biobalm import trappist_core, petri_net_translation as pnt
    devnull = os.open(os.devnull, os.O_WRONLY)
    os.dup2(devnull, 2)
    rng = random.Random(seed)
    n = len(tt)
    names = bn.names_for(n)
    net = ba.BooleanNetwork.from_bnet(bn.render_bnet(tt, names))
    assert list(net.variable_names()) == names
    pn = pnt.network_to_petrinet(net)
    for problem in ("max", "min"):
        trappist_core.trappist(pn, problem=problem)          # earlier use of the parent net (default source detection)
    while True:
        sp0 = [2 if rng.random() < 0.6 else rng.randint(0, 1) for _ in range(n)]
        if any(x == 2 for x in sp0) and any(x != 2 for x in sp0):
            break
    fixed = [i for i in range(n) if sp0[i] != 2]
    free = [i for i in range(n) if sp0[i] == 2]

    def sub(s):
        for i in fixed:
            s = (s | (1 << i)) if sp0[i] else (s & ~(1 << i))
        return s
    tt2 = [[sp0[i]] * (1 << n) if i in fixed else [tt[i][sub(s)] for s in range(1 << n)] for i in range(n)]
    rpn = pnt.restrict_petrinet_to_subspace(pn, space_of(sp0, names))
    events = []
    for _ in range(per_kind):
        e = _default(n)
        e["k"] = "trappist"
        e["frompn"] = True
        e["problem"] = rng.choice(["min", "max", "max", "fix"])
        ens = [2 if (i in fixed or rng.random() < 0.75) else rng.randint(0, 1) for i in range(n)]
        if e["problem"] == "max" and all(ens[i] != 2 for i in free):
            ens[rng.choice(free)] = 2
        av = []
        for _k in range(rng.choice([0, 0, 1, 2])):
            a = [2 if (i in fixed or rng.random() < 0.5) else rng.randint(0, 1) for i in range(n)]
            if any(x != 2 for x in a):
                av.append(a)
        mode = rng.choice(["auto", "auto", "none", "some"])
        e["autosrc"] = mode == "auto"
        e["srcs"] = [] if mode != "some" else sorted(i + 1 for i in rng.sample(free, rng.randint(1, len(free))))
        e["limit"] = rng.choice([-1, -1, -1, 1, 2])
        e["ensure"] = [sp0[i] if i in fixed else ens[i] for i in range(n)]
        e["avoid"] = av
        try:
            r = trappist_core.trappist(
                rpn, problem=e["problem"], solution_limit=None if e["limit"] < 0 else e["limit"],
                ensure_subspace=space_of(ens, names), avoid_subspaces=[space_of(a, names) for a in av],
                optimize_source_variables=None if e["autosrc"] else [names[i - 1] for i in e["srcs"]])
            e["res"] = [[sp0[i] if i in fixed else v[i] for i in range(n)] for v in (vec(x, names) for x in r)]
        except Exception as ex:  # noqa: BLE001
            e["raised"] = True
            e["exc"] = type(ex).__name__ + ": " + str(ex)[:100]
        events.append(e)
    return {"tid": tid, "net": {"n": n, "f": tt2, "inp": []}, "light": False, "events": events}


def _work(task: dict) -> str:
    if task.get("restricted"):
        return json.dumps(record_restricted(task["tid"], task["tt"], task["seed"], task["per_kind"]))
    return json.dumps(record_pure(task["tid"], task["tt"], task["seed"], task["kinds"], task["per_kind"],
                                  task.get("exhaustive_small", False)))


def record_many(tasks: list[dict], outfile: str, procs: int = 16) -> int:
    from concurrent.futures import ProcessPoolExecutor
    os.makedirs(os.path.dirname(outfile), exist_ok=True)
    n = 0
    with ProcessPoolExecutor(max_workers=procs) as ex, open(outfile, "w") as f:
        for line in ex.map(_work, tasks, chunksize=max(1, len(tasks) // (procs * 8))):
            f.write(line + "\n")
            n += 1
    return n
