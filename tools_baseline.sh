#!/bin/sh
# runs the repository's pinned baseline (guard off) and compares with BASELINE.json stable_pass
cd /repo && env -u BIOBALM_VERIF /venv/bin/python -m pytest -ra -q -p no:cacheprovider --timeout=900 --continue-on-collection-errors --junitxml=/verif/work/baseline.junit.xml > /verif/work/baseline.log 2>&1
/venv/bin/python - <<'PY'
import json, xml.etree.ElementTree as ET
base=json.load(open('/root/.vp/BASELINE.json'))
t=ET.parse('/verif/work/baseline.junit.xml')
ok=set()
for tc in t.iter('testcase'):
    if not any(c.tag in ('failure','error','skipped') for c in tc):
        ok.add(f"{tc.get('classname')}::{tc.get('name')}")
missing=[x for x in base['stable_pass'] if x not in ok]
print("baseline stable tests passing:", len(base['stable_pass'])-len(missing), "of", len(base['stable_pass']))
for m in missing: print("MISSING", m)
raise SystemExit(1 if missing else 0)
PY
